(* ChunkedFaultsTouch.v — touch under any fault plan never changes the value: afterwards the key
   reads as nothing or with exactly the data and flags it had (its deadline may be old or new). *)
From Coq Require Import String.
From Rend Require Import base.Bytes gen.Consts_gen spec.MapSpec orca.Types handlers.ChunkFmt
  handlers.ChunkFmtProofs handlers.Chunked handlers.ChunkedSpec handlers.ChunkedProofs
  handlers.ChunkedRefBase handlers.ChunkedRefCmds handlers.ChunkedFaults handlers.ChunkedFaultsProofs
  handlers.ChunkedFaultsRead handlers.ChunkedFaultsWrite.
Open Scope N_scope.

Lemma frun_embed_dead pl q K s now i :
  frun pl (embed (BReq q K)) s now i true = frun pl (embed (K BNone)) s now (S i) true.
Proof. reflexivity. Qed.

Lemma embed_breqs_run pl now s0 : forall qs acc (K : list bres -> bprog hres) s i dead,
  Forall notset qs -> lsub now s0 s ->
  exists rs s1 i1 d1, frun pl (embed (breqs qs acc K)) s now i dead = frun pl (embed (K (rev acc ++ rs))) s1 now i1 d1 /\
                      lsub now s0 s1.
Proof.
  induction qs as [|q r IH]; intros acc K s i dead HF L.
  - exists [], s, i, dead. cbn [breqs]. rewrite app_nil_r. split; [reflexivity|exact L].
  - inversion HF as [|? ? Hq HF']; subst. cbn [breqs].
    assert (Hgen : forall x s1 i1 d1, lsub now s0 s1 ->
      exists rs s2 i2 d2, frun pl (embed (breqs r (x :: acc) K)) s1 now i1 d1 = frun pl (embed (K (rev acc ++ rs))) s2 now i2 d2 /\ lsub now s0 s2).
    { intros x s1 i1 d1 L1. destruct (IH (x :: acc) K s1 i1 d1 HF' L1) as (rs & s2 & i2 & d2 & E & L2).
      exists (x :: rs), s2, i2, d2. split; [|exact L2]. rewrite E. cbn [rev]. rewrite <- app_assoc. reflexivity. }
    destruct dead; [rewrite frun_embed_dead; apply Hgen; exact L|].
    rewrite frun_embed_req. destruct (pl i) as [[st|ap]|].
    + apply Hgen. apply lsub_status_store. exact L.
    + unfold notset in Hq. rewrite Hq. apply Hgen. destruct ap; [apply lsub_b_exec; assumption|exact L].
    + apply Hgen. apply lsub_b_exec; assumption.
Qed.

Section Touch.
Variables (pl : cplan) (s : store) (now : N) (tok k : bytes) (ttl : N).
Hypothesis Hpl : plan_ok pl.
Hypothesis Hk : 1 <= len k <= 250.
Hypothesis W : wf_key s now k.
Hypothesis Hexpb : fst (c_exptime now ttl) < 4294967296.

(* the rewritten metadata over a store that only lost / re-deadlined entries *)
Lemma touched_meta_view me s1 fl dl :
  live now s (meta_key k) = Some me -> lsub now s s1 ->
  let md := dec_meta (e_data me) in
  let md' := mkMeta (m_length md) (m_flags md) (m_nchunks md) (m_csize md) (m_instime md) (fst (c_exptime now ttl)) (m_token md) in
  let s2 := upd s1 (meta_key k) (Some (mkE (enc_meta md') fl dl)) in
  cview s2 now k = None \/ cview s2 now k = cview s now k.
Proof.
  intros Hm L md md' s2.
  destruct (W me Hm) as (_ & _ & W3 & W4 & W5 & _ & W7 & _ & W9 & _). fold md in W3, W4, W5, W7, W9.
  pose proof (ds_bounds k Hk) as Hds.
  destruct (wf_live s now k me Hk W Hm) as (Hn & Hg & HA). cbv zeta in Hn, Hg, HA. fold md in Hn, Hg, HA.
  assert (Hrt : dec_meta (enc_meta md') = md').
  { apply meta_roundtrip; unfold md'; cbn [m_length m_flags m_nchunks m_csize m_instime m_exptime m_token]; first [assumption|lia]. }
  unfold cview at 1 2. rewrite abs_entry_unfold.
  destruct (live now s2 (meta_key k)) as [me2|] eqn:Hm2; [|left; reflexivity].
  apply live_some in Hm2. destruct Hm2 as [Hm2 _]. unfold s2 in Hm2. rewrite upd_same in Hm2. inversion Hm2; subst me2. clear Hm2.
  cbv zeta. cbn [e_data e_dl]. rewrite Hrt.
  destruct (forallb (chunk_ok s2 now k md') (idxs (m_nchunks md'))) eqn:Hall; [right|left; reflexivity].
  rewrite forallb_forall in Hall. unfold cview. rewrite HA. cbn [view e_data e_flags].
  change (m_flags md') with (m_flags md). change (m_nchunks md') with (m_nchunks md).
  rewrite (aval_ext md' md) by reflexivity. do 3 f_equal.
  apply map_ext_in. intros i Hi. specialize (Hall i Hi). unfold chunk_ok in Hall. unfold cdata.
  assert (Hc : live now s2 (chunk_key k i) = live now s1 (chunk_key k i)).
  { rewrite !live_lv. unfold s2. rewrite upd_other; [reflexivity|]. intros E. symmetry in E. exact (meta_not_chunk_any _ _ _ E). }
  rewrite Hc in *. destruct (live now s1 (chunk_key k i)) as [c1|] eqn:Hc1; [|discriminate].
  destruct (L _ _ Hc1) as (c0 & Hc0 & Hd & _). rewrite Hc0, Hd. reflexivity.
Qed.

(* ---- c10_chunked_touch_aon ---- *)
Lemma touch_aon_f :
  let st := fst (chunked_exec_f pl tok now s now (HTouch k ttl)) in
  cview st now k = None \/ cview st now k = cview s now k.
Proof.
  intros st. unfold st, chunked_exec_f. cbn [chunked_prog_f chunked_prog]. unfold chunked_touch, with_meta.
  rewrite frun_embed_req. destruct (pl 0%nat) as [[sx|ap]|] eqn:E0.
  - destruct (err_of_status sx) as [e|] eqn:Ee; [|exfalso; exact (Hpl _ sx E0 Ee)].
    apply lsub_cview. destruct (e =? EKeyNotFound); cbn [embed frun fst]; apply lsub_status_store; apply lsub_refl.
  - cbn [is_set embed frun fst]. rewrite b_exec_get. cbn [fst]. right. destruct ap; reflexivity.
  - rewrite b_exec_get. cbn [fst snd]. destruct (live now s (meta_key k)) as [me|] eqn:Hm.
    2:{ rewrite err_enoent, N.eqb_refl. cbn [embed frun fst]. right. reflexivity. }
    set (md := dec_meta (e_data me)).
    match goal with |- context [breqs ?qs [] ?K0] =>
      destruct (embed_breqs_run pl now s qs [] K0 s 1%nat false) as (rs & s1 & i1 & d1 & E & L1) end.
    { apply Forall_forall. intros q Hq. apply in_map_iff in Hq. destruct Hq as [ck [<- _]]. reflexivity. }
    { apply lsub_refl. }
    rewrite E. clear E. cbn [rev app].
    destruct (any_notfound rs); [cbn [embed frun fst]; apply lsub_cview; exact L1|].
    destruct d1.
    + rewrite frun_embed_dead. cbn [embed frun fst]. apply lsub_cview. exact L1.
    + rewrite frun_embed_req. destruct (pl i1) as [[sx|ap]|] eqn:E1.
      * destruct (err_of_status sx) as [e|] eqn:Ee; [|exfalso; exact (Hpl _ sx E1 Ee)].
        cbn [embed frun fst]. apply lsub_cview. apply lsub_status_store. exact L1.
      * cbn [is_set frun fst]. destruct ap; [|apply lsub_cview; exact L1].
        rewrite b_exec_set. cbn [fst]. apply (touched_meta_view me s1 _ _ Hm L1).
      * rewrite b_exec_set. cbn [fst snd]. rewrite err_success. cbn [embed frun fst].
        apply (touched_meta_view me s1 _ _ Hm L1).
Qed.
End Touch.
