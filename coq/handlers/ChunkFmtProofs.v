From Rend Require Import base.Bytes gen.Consts_gen handlers.ChunkFmt.
Open Scope N_scope.

Lemma chunk_values_uniform (key data token : bytes) :
  len token = tokenSize -> tokenSize <= chunk_full (len key) ->
  Forall (fun v => len v = chunk_full (len key))
         (map (fun c => token ++ c) (chunks (chunk_data (len key)) data)).
Proof.
  intros Ht Hf. apply Forall_forall. intros v Hv. apply in_map_iff in Hv.
  destruct Hv as [c [<- Hc]].
  pose proof (chunks_all_len (chunk_data (len key)) data) as Hall.
  rewrite Forall_forall in Hall. specialize (Hall c Hc).
  rewrite len_app, Ht, Hall. unfold chunk_data. lia.
Qed.

Lemma chunk_budget (key : bytes) (i : N) :
  1 <= len key <= 250 -> i < 999 ->
  len (chunk_key key i) + chunk_full (len key) + 67 <= 1184.
Proof.
  intros Hk Hi. rewrite chunk_key_len. pose proof (dec_len_small i ltac:(lia)).
  unfold chunk_full. pose proof chunkMaxSize_val. pose proof chunkOverhead_val. lia.
Qed.

Lemma chunk_count_ceil (key data : bytes) :
  1 <= len key <= 250 ->
  let ds := chunk_data (len key) in
  let n := len (chunks ds data) in
  len data <= n * ds /\ (0 < len data -> (n - 1) * ds < len data) /\ (len data = 0 -> n = 0).
Proof.
  intros Hk ds n. unfold n. rewrite chunks_length. apply num_chunks_ceil.
  unfold ds, chunk_data, chunk_full.
  pose proof chunkMaxSize_val. pose proof chunkOverhead_val. pose proof tokenSize_val. lia.
Qed.

Lemma meta_const_size m : len (m_token m) = tokenSize -> len (enc_meta m) = metadataSize.
Proof.
  intros H. rewrite enc_meta_len by assumption.
  pose proof metadataSize_val. pose proof tokenSize_val. lia.
Qed.
