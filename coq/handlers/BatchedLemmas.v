(* BatchedLemmas.v — structural lemmas about the batching model (handlers/Batched.v):
   opaque numbering, routing by lookup, the lookup-free execution [exec_st]/[exec_ds] that the
   batch run reduces to under [wf_batch], and the multiset lemmas for the get tracker. *)
From Coq Require Import Permutation.
From Rend Require Import base.Bytes gen.Consts_gen spec.MapSpec orca.Types handlers.Std handlers.Batched
  handlers.BatchedSpec.
Open Scope N_scope.

Notation ent := (N * wreq * handle)%type (only parsing).
Definition eo (e : ent) : N := fst (fst e).
Definition strip (e : ent) : wreq * handle := (snd (fst e), snd e).
Definition wchan (x : wreq * handle) : nat := hd_chan (snd x).

(* ------------------------------------------------------------------ *)
(* generic list facts                                                  *)

Lemma NoDup_app_lt (a b : list N) (m : N) :
  NoDup a -> NoDup b -> (forall x, In x a -> x <= m) -> (forall x, In x b -> m < x) -> NoDup (a ++ b).
Proof.
  intros Ha Hb Hla Hlb. induction Ha as [|x a Hx Ha IH]; [exact Hb|].
  cbn [app]. constructor.
  - intros Hin. apply in_app_or in Hin. destruct Hin as [Hin|Hin]; [contradiction|].
    specialize (Hla x (or_introl eq_refl)). specialize (Hlb x Hin). lia.
  - apply IH. intros y Hy. apply Hla. right. exact Hy.
Qed.

(* ------------------------------------------------------------------ *)
(* opaque numbering                                                    *)

Lemma u32_small x : x < 4294967296 -> u32 x = x.
Proof. intros H. unfold u32. apply N.mod_small. exact H. Qed.

Lemma get_entries_spec gete ch items : forall o,
  o + N.of_nat (length items) < 4294967296 ->
  snd (get_entries gete o ch items) = o + N.of_nat (length items) /\
  (forall x, In x (map eo (fst (get_entries gete o ch items))) -> o <= x < o + N.of_nat (length items)) /\
  NoDup (map eo (fst (get_entries gete o ch items))).
Proof.
  induction items as [|it rest IH]; intros o Hb.
  - cbn [get_entries fst snd map length]. split; [lia|]. split; [intros x []|constructor].
  - cbn [get_entries length] in *.
    assert (Hu : u32 (o + 1) = o + 1) by (apply u32_small; lia).
    rewrite Hu. specialize (IH (o + 1)).
    destruct (get_entries gete (o + 1) ch rest) as [es o'] eqn:E. cbn [fst snd map] in *.
    destruct IH as (I1 & I2 & I3); [lia|].
    split; [lia|]. split.
    + intros x [Hx|Hx]; [unfold eo in Hx; cbn [fst] in Hx; lia|]. specialize (I2 x Hx). lia.
    + constructor; [|exact I3]. intros Hin. specialize (I2 _ Hin). unfold eo in I2. cbn [fst] in I2. lia.
Qed.

(* the entries of ONE request and the counter after them *)
Definition req_entries (opq : N) (r : qreq) : list ent * N :=
  let o := u32 (opq + 1) in
  let ch := q_chan r in
  match q_req r with
  | HSet m k d f ttl => ([(o, WSet m k d f ttl, mkHd k 0 false ch)], o)
  | HCat fr k d => ([(o, WCat fr k d, mkHd k 0 false ch)], o)
  | HDelete k => ([(o, WDelete k, mkHd k 0 false ch)], o)
  | HTouch k ttl => ([(o, WTouch k ttl, mkHd k 0 false ch)], o)
  | HGat k ttl opq' => ([(o, WGat k ttl, mkHd k opq' false ch)], o)
  | HGet items => get_entries false o ch items
  | HGetE items => get_entries true o ch items
  end.

Lemma batch_entries_cons opq r rest :
  batch_entries opq (r :: rest) = fst (req_entries opq r) ++ batch_entries (snd (req_entries opq r)) rest.
Proof.
  cbn [batch_entries]. unfold req_entries. destruct (q_req r); try reflexivity;
    destruct (get_entries _ _ _ _); reflexivity.
Qed.

Lemma req_entries_spec opq r :
  opq + 1 + N.of_nat (expected (q_req r)) < 4294967296 ->
  opq < snd (req_entries opq r) <= opq + 1 + N.of_nat (expected (q_req r)) /\
  (forall x, In x (map eo (fst (req_entries opq r))) -> opq < x <= snd (req_entries opq r)) /\
  NoDup (map eo (fst (req_entries opq r))).
Proof.
  intros Hb.
  assert (Hu : u32 (opq + 1) = opq + 1) by (apply u32_small; lia).
  unfold req_entries. cbv zeta. rewrite Hu.
  destruct (q_req r); cbn [expected] in Hb |- *.
  1-4,7: cbn [fst snd map eo]; (split; [lia|]); split;
         [intros x [Hx|[]]; unfold eo in Hx; cbn [fst] in Hx; lia
         | constructor; [intros []|constructor]].
  - destruct (get_entries_spec false (q_chan r) items (opq + 1)) as (I1 & I2 & I3); [lia|].
    rewrite I1. split; [lia|]. split; [|exact I3]. intros x Hx. specialize (I2 x Hx). lia.
  - destruct (get_entries_spec true (q_chan r) items (opq + 1)) as (I1 & I2 & I3); [lia|].
    rewrite I1. split; [lia|]. split; [|exact I3]. intros x Hx. specialize (I2 x Hx). lia.
Qed.

Lemma total_expected_cons r rest :
  total_expected (r :: rest) = (expected (q_req r) + total_expected rest)%nat.
Proof. reflexivity. Qed.

Lemma batch_entries_spec : forall reqs opq,
  opq + N.of_nat (total_expected reqs) + N.of_nat (length reqs) < 4294967296 ->
  (forall x, In x (map eo (batch_entries opq reqs)) -> opq < x) /\
  NoDup (map eo (batch_entries opq reqs)).
Proof.
  induction reqs as [|r rest IH]; intros opq Hb.
  - cbn [batch_entries map]. split; [intros x []|constructor].
  - rewrite batch_entries_cons. rewrite total_expected_cons in Hb. cbn [length] in Hb.
    destruct (req_entries_spec opq r) as (R1 & R2 & R3); [lia|].
    destruct (IH (snd (req_entries opq r))) as (I1 & I2); [lia|].
    rewrite map_app. split.
    + intros x Hx. apply in_app_or in Hx. destruct Hx as [Hx|Hx].
      * specialize (R2 x Hx). lia.
      * specialize (I1 x Hx). lia.
    + apply NoDup_app_lt with (m := snd (req_entries opq r)); [exact R3|exact I2| |exact I1].
      intros x Hx. specialize (R2 x Hx). lia.
Qed.

Lemma opaques_distinct : forall base reqs,
  wf_batch base reqs -> NoDup (map (fun e => fst (fst e)) (batch_entries base reqs)).
Proof.
  intros base reqs (Hb & _ & Hn).
  apply (batch_entries_spec reqs base). lia.
Qed.

(* ------------------------------------------------------------------ *)
(* routing by lookup is the identity on a table with distinct opaques  *)

Lemma lookup_member : forall (tab : list ent) o w h,
  NoDup (map eo tab) -> In (o, w, h) tab -> lookup_entry tab o = Some (w, h).
Proof.
  induction tab as [|[[o' w'] h'] tab IH]; intros o w h Hnd Hin; [destruct Hin|].
  cbn [lookup_entry]. cbn [map] in Hnd. inversion Hnd as [|? ? Hni Hnd']; subst.
  destruct Hin as [Heq|Hin].
  - inversion Heq; subst. rewrite N.eqb_refl. reflexivity.
  - destruct (o' =? o) eqn:E.
    + apply N.eqb_eq in E. subst o'. exfalso. apply Hni.
      apply (in_map eo) in Hin. exact Hin.
    + apply IH; assumption.
Qed.

(* the lookup-free execution of a list of (request, handle) pairs *)
Fixpoint exec_st (ws : list (wreq * handle)) (s : store) (now : N) : store :=
  match ws with
  | [] => s
  | (w, _) :: rest => exec_st rest (fst (w_exec s now w)) now
  end.
Fixpoint exec_ds (ws : list (wreq * handle)) (s : store) (now : N) : list (nat * resp) :=
  match ws with
  | [] => []
  | (w, h) :: rest => (hd_chan h, deliver w h (snd (w_exec s now w))) :: exec_ds rest (fst (w_exec s now w)) now
  end.

Lemma exec_st_app a b s now : exec_st (a ++ b) s now = exec_st b (exec_st a s now) now.
Proof. revert s; induction a as [|[w h] a IH]; intros s; cbn [app exec_st]; [reflexivity|apply IH]. Qed.
Lemma exec_ds_app a b s now : exec_ds (a ++ b) s now = exec_ds a s now ++ exec_ds b (exec_st a s now) now.
Proof.
  revert s; induction a as [|[w h] a IH]; intros s; cbn [app exec_st exec_ds]; [reflexivity|].
  rewrite IH. reflexivity.
Qed.
Lemma exec_ds_chans ws : forall s now, map fst (exec_ds ws s now) = map wchan ws.
Proof. induction ws as [|[w h] ws IH]; intros s now; cbn [exec_ds map fst]; [reflexivity|]. rewrite IH. reflexivity. Qed.

Lemma run_entries_none tab : forall es s now,
  run_entries tab es s now None = run_entries tab es s now (Some (length es)).
Proof.
  induction es as [|[[o w] h] es IH]; intros s now; [reflexivity|].
  cbn [run_entries length]. destruct (w_exec s now w) as [s1 r1]. rewrite IH. reflexivity.
Qed.

Lemma run_entries_some (tab : list ent) : NoDup (map eo tab) -> forall es n s now,
  (forall e, In e es -> In e tab) ->
  run_entries tab es s now (Some n) =
  (exec_st (map strip (firstn n es)) s now, exec_ds (map strip (firstn n es)) s now, skipn n es).
Proof.
  intros Hnd. induction es as [|[[o w] h] es IH]; intros n s now Hsub.
  - destruct n; reflexivity.
  - destruct n as [|n]; [reflexivity|].
    cbn [run_entries firstn skipn map strip fst snd exec_st exec_ds].
    rewrite (lookup_member tab o w h Hnd (Hsub _ (or_introl eq_refl))).
    destruct (w_exec s now w) as [s1 r1]. cbn [fst snd].
    rewrite IH by (intros e He; apply Hsub; right; exact He). reflexivity.
Qed.

Lemma map_strip_firstn n (es : list ent) : map strip (firstn n es) = firstn n (map strip es).
Proof. symmetry. apply firstn_map. Qed.

(* run_batch under wf_batch, without lookups *)
Lemma run_batch_none base reqs s now : wf_batch base reqs ->
  run_batch base reqs s now None =
  (exec_st (map strip (batch_entries base reqs)) s now, exec_ds (map strip (batch_entries base reqs)) s now).
Proof.
  intros Hwf. unfold run_batch. rewrite run_entries_none.
  rewrite run_entries_some; [|exact (opaques_distinct _ _ Hwf)|auto].
  rewrite firstn_all, skipn_all. cbn [chans_of rev map]. rewrite app_nil_r. reflexivity.
Qed.

Lemma run_batch_some base reqs s now n applied : wf_batch base reqs ->
  run_batch base reqs s now (Some (n, applied)) =
  (apply_silently (skipn n (batch_entries base reqs)) applied
     (exec_st (map strip (firstn n (batch_entries base reqs))) s now) now,
   exec_ds (map strip (firstn n (batch_entries base reqs))) s now
     ++ map (fun c => (c, RErr RETRY)) (chans_of (skipn n (batch_entries base reqs)) [])).
Proof.
  intros Hwf. unfold run_batch.
  rewrite run_entries_some; [|exact (opaques_distinct _ _ Hwf)|auto]. reflexivity.
Qed.

(* ------------------------------------------------------------------ *)
(* the (request, handle) pairs of a batch do not depend on the opaques  *)

Definition gwh (gete : bool) (ch : nat) (it : gitem) : wreq * handle :=
  (if gete then WGetE (gi_key it) else WGet (gi_key it), mkHd (gi_key it) (gi_opaque it) (gi_quiet it) ch).

Definition req_wh (r : qreq) : list (wreq * handle) :=
  let ch := q_chan r in
  match q_req r with
  | HSet m k d f ttl => [(WSet m k d f ttl, mkHd k 0 false ch)]
  | HCat fr k d => [(WCat fr k d, mkHd k 0 false ch)]
  | HDelete k => [(WDelete k, mkHd k 0 false ch)]
  | HTouch k ttl => [(WTouch k ttl, mkHd k 0 false ch)]
  | HGat k ttl opq' => [(WGat k ttl, mkHd k opq' false ch)]
  | HGet items => map (gwh false ch) items
  | HGetE items => map (gwh true ch) items
  end.

Lemma strip_get_entries gete ch items : forall o,
  map strip (fst (get_entries gete o ch items)) = map (gwh gete ch) items.
Proof.
  induction items as [|it rest IH]; intros o; [reflexivity|].
  cbn [get_entries]. specialize (IH (u32 (o + 1))).
  destruct (get_entries gete (u32 (o + 1)) ch rest) as [es o']. cbn [fst map] in *.
  rewrite IH. reflexivity.
Qed.

Lemma strip_req_entries opq r : map strip (fst (req_entries opq r)) = req_wh r.
Proof.
  unfold req_entries, req_wh. destruct (q_req r); try reflexivity; apply strip_get_entries.
Qed.

Lemma strip_batch : forall reqs opq, map strip (batch_entries opq reqs) = flat_map req_wh reqs.
Proof.
  induction reqs as [|r rest IH]; intros opq; [reflexivity|].
  rewrite batch_entries_cons, map_app, strip_req_entries, IH. reflexivity.
Qed.

Lemma req_wh_chan r : Forall (fun x => wchan x = q_chan r) (req_wh r).
Proof.
  unfold req_wh. destruct (q_req r); try (repeat constructor);
    apply Forall_forall; intros x Hx; apply in_map_iff in Hx; destruct Hx as (it & <- & _); reflexivity.
Qed.

Lemma req_wh_length r : length (req_wh r) = expected (q_req r).
Proof. unfold req_wh. destruct (q_req r); cbn [expected length]; try reflexivity; apply map_length. Qed.

(* ------------------------------------------------------------------ *)
(* of_chan                                                             *)

Lemma of_chan_app a b c : of_chan (a ++ b) c = of_chan a c ++ of_chan b c.
Proof. unfold of_chan. apply flat_map_app. Qed.

Lemma of_chan_all ds c : Forall (fun d => fst d = c) ds -> of_chan ds c = map snd ds.
Proof.
  induction 1 as [|d ds Hd _ IH]; [reflexivity|].
  unfold of_chan in *. cbn [flat_map map]. rewrite IH, Hd, Nat.eqb_refl. reflexivity.
Qed.

Lemma of_chan_none ds c : ~ In c (map fst ds) -> of_chan ds c = [].
Proof.
  induction ds as [|d ds IH]; intros Hni; [reflexivity|].
  unfold of_chan in *. cbn [flat_map map] in *.
  destruct (Nat.eqb (fst d) c) eqn:E.
  - apply Nat.eqb_eq in E. exfalso. apply Hni. left. exact E.
  - cbn [app]. apply IH. intros H. apply Hni. right. exact H.
Qed.

Lemma of_chan_some ds c : In c (map fst ds) -> of_chan ds c <> [].
Proof.
  induction ds as [|d ds IH]; intros Hin; [destruct Hin|].
  unfold of_chan in *. cbn [flat_map map] in *.
  destruct (Nat.eqb (fst d) c) eqn:E; [discriminate|].
  cbn [app]. apply IH. destruct Hin as [Hin|Hin]; [|exact Hin].
  apply Nat.eqb_neq in E. contradiction.
Qed.

Lemma of_chan_const_in (x : resp) chs c : NoDup chs -> In c chs -> of_chan (map (fun c => (c, x)) chs) c = [x].
Proof.
  induction 1 as [|a chs Ha Hnd IH]; intros Hin; [destruct Hin|].
  unfold of_chan in *. cbn [map flat_map fst snd].
  destruct Hin as [->|Hin].
  - rewrite Nat.eqb_refl. cbn [app]. f_equal.
    apply (of_chan_none (map (fun c => (c, x)) chs) c). rewrite map_map. cbn [fst]. rewrite map_id. exact Ha.
  - destruct (Nat.eqb a c) eqn:E.
    + apply Nat.eqb_eq in E. subst. contradiction.
    + cbn [app]. apply IH. exact Hin.
Qed.

Lemma of_chan_const_notin (x : resp) chs c : ~ In c chs -> of_chan (map (fun c => (c, x)) chs) c = [].
Proof.
  intros H. apply of_chan_none. rewrite map_map. cbn [fst]. rewrite map_id. exact H.
Qed.

(* ------------------------------------------------------------------ *)
(* chans_of                                                            *)

Lemma existsb_nat_in a acc : existsb (Nat.eqb a) acc = true <-> In a acc.
Proof.
  rewrite existsb_exists. split.
  - intros (x & Hx & E). apply Nat.eqb_eq in E. subst. exact Hx.
  - intros H. exists a. split; [exact H|apply Nat.eqb_refl].
Qed.

Lemma chans_of_spec : forall (es : list ent) acc, NoDup acc ->
  NoDup (chans_of es acc) /\
  forall c, In c (chans_of es acc) <-> In c acc \/ In c (map wchan (map strip es)).
Proof.
  induction es as [|[[o w] h] es IH]; intros acc Hnd.
  - cbn [chans_of map]. split; [apply NoDup_rev; exact Hnd|].
    intros c. rewrite <- in_rev. cbn [In]. tauto.
  - cbn [chans_of map strip wchan fst snd].
    destruct (existsb (Nat.eqb (hd_chan h)) acc) eqn:E.
    + apply existsb_nat_in in E. destruct (IH acc Hnd) as (I1 & I2). split; [exact I1|].
      intros c. rewrite I2. cbn [In]. split; [tauto|]. intros [H|[H|H]]; [tauto|subst; tauto|tauto].
    + assert (Hni : ~ In (hd_chan h) acc).
      { intros H. apply existsb_nat_in in H. congruence. }
      destruct (IH (hd_chan h :: acc)) as (I1 & I2); [constructor; assumption|]. split; [exact I1|].
      intros c. rewrite I2. cbn [In]. tauto.
Qed.

(* ------------------------------------------------------------------ *)
(* the get tracker as a multiset                                       *)

Lemma same_item_eq a b : same_item a b = true -> a = b.
Proof.
  unfold same_item. intros H. apply andb_true_iff in H. destruct H as [H H3].
  apply andb_true_iff in H. destruct H as [H1 H2].
  apply bytes_eqb_eq in H1. apply N.eqb_eq in H2. apply Bool.eqb_prop in H3.
  destruct a as [k1 o1 q1], b as [k2 o2 q2]; cbn [gi_key gi_opaque gi_quiet] in *. congruence.
Qed.
Lemma same_item_refl a : same_item a a = true.
Proof. unfold same_item. rewrite bytes_eqb_refl, N.eqb_refl, Bool.eqb_reflx. reflexivity. Qed.

Lemma remove_item_perm x : forall l, In x l -> Permutation (x :: remove_item x l) l.
Proof.
  induction l as [|y l IH]; intros Hin; [destruct Hin|].
  cbn [remove_item]. destruct (same_item x y) eqn:E.
  - apply same_item_eq in E. subst. apply Permutation_refl.
  - destruct Hin as [->|Hin]; [rewrite same_item_refl in E; discriminate|].
    eapply perm_trans; [apply perm_swap|]. apply perm_skip. apply IH. exact Hin.
Qed.

Definition rm_all (xs pend : list gitem) : list gitem := fold_left (fun p x => remove_item x p) xs pend.

Lemma rm_all_perm : forall xs ys pend, Permutation (xs ++ ys) pend -> Permutation (rm_all xs pend) ys.
Proof.
  induction xs as [|x xs IH]; intros ys pend Hp.
  - cbn. apply Permutation_sym. exact Hp.
  - unfold rm_all. cbn [fold_left]. apply IH.
    assert (Hin : In x pend) by (eapply Permutation_in; [exact Hp|left; reflexivity]).
    apply Permutation_cons_inv with (a := x). cbn [app] in Hp.
    eapply perm_trans; [exact Hp|]. apply Permutation_sym. apply remove_item_perm. exact Hin.
Qed.

Lemma retry_request_complete : forall pending, Permutation (retry_request pending) pending.
Proof.
  unfold retry_request. induction pending as [|x l IH]; [constructor|].
  cbn [filter]. destruct (gi_quiet x); cbn [negb app].
  - apply perm_skip. exact IH.
  - eapply perm_trans; [apply Permutation_sym; apply Permutation_middle|]. apply perm_skip. exact IH.
Qed.
