(* InmemProofs.v — the fixed in-memory backend (Inmem.v) refines the reference map under the
   backend's own TTL rule; reads are read-only; every map write happens under the write lock. *)
From Rend Require Import base.Bytes gen.Consts_gen spec.MapSpec orca.Types handlers.Std handlers.Inmem.
Open Scope N_scope.

(* ---------------- arithmetic of exptimes ---------------- *)
Lemma u32_small x : x < two32 -> u32 x = x.
Proof. intros H. unfold u32. apply N.mod_small. exact H. Qed.

Lemma alive_abs now e : now < two32 -> alive now (abs_raw e) = negb (expired now e).
Proof.
  intros H. unfold alive, expired, abs_raw, abs_dl. cbn [e_dl]. rewrite (u32_small now H).
  destruct (r_exp e =? 0) eqn:E; cbn [negb andb]; [reflexivity|]. lia.
Qed.

Lemma abs_new_exp now ttl : now + ttl < two32 -> abs_dl (new_exp now ttl) = inmem_norm now ttl.
Proof.
  intros H. unfold new_exp, inmem_norm, abs_dl.
  destruct (ttl =? 0) eqn:E.
  - apply N.eqb_eq in E. subst ttl. reflexivity.
  - apply N.eqb_neq in E. replace (0 <? ttl) with true by lia.
    rewrite (u32_small now) by lia. rewrite u32_small by lia.
    replace (now + ttl =? 0) with false by lia. reflexivity.
Qed.

Lemma dl_raw_abs x : dl_raw (abs_dl x) = x.
Proof. unfold dl_raw, abs_dl. destruct (x =? 0) eqn:E; lia. Qed.

(* ---------------- liveness ---------------- *)
Lemma alive_antitone now now' e : now <= now' -> alive now e = false -> alive now' e = false.
Proof. unfold alive. destruct (e_dl e); [discriminate|]. lia. Qed.

Lemma live_none_later now now' s k : now <= now' -> live now s k = None -> live now' s k = None.
Proof.
  intros Hle. unfold live. destruct (s k) as [e|]; [|reflexivity].
  destruct (alive now e) eqn:A; [discriminate|]. intros _.
  rewrite (alive_antitone now now' e Hle A). reflexivity.
Qed.

Lemma live_abs st now k : now < two32 ->
  live now (abs st) k = match lookup st now k with Some e => Some (abs_raw e) | None => None end.
Proof.
  intros H. unfold live, abs, lookup. destruct (st k) as [e|]; [|reflexivity].
  rewrite (alive_abs now e H). destruct (expired now e); reflexivity.
Qed.

Lemma live_eq_refl now a : live_eq now a a.
Proof. intros ? ? ?. reflexivity. Qed.
Lemma live_eq_sym now a b : live_eq now a b -> live_eq now b a.
Proof. intros H n k L. symmetry. apply H. exact L. Qed.
Lemma live_eq_trans now a b c : live_eq now a b -> live_eq now b c -> live_eq now a c.
Proof. intros H1 H2 n k L. rewrite (H1 n k L). apply H2. exact L. Qed.
Lemma live_eq_later now now' a b : now <= now' -> live_eq now a b -> live_eq now' a b.
Proof. intros L H n k L'. apply H. lia. Qed.
Lemma live_eq_ext now a a' b : (forall k, a' k = a k) -> live_eq now a b -> live_eq now a' b.
Proof. intros E H n k L. unfold live. rewrite E. apply H. exact L. Qed.

(* [upd] at and away from the key (independent of how MapSpec tests key equality) *)
Lemma upd_same (s : store) k v : upd s k v k = v.
Proof.
  unfold upd. first [ rewrite bytes_eqb_refl; reflexivity
                    | destruct (key_eq_dec k k); [reflexivity|contradiction] ].
Qed.
Lemma upd_other (s : store) k v k' : k' <> k -> upd s k v k' = s k'.
Proof.
  intros H. unfold upd. first [ apply bytes_eqb_neq in H; rewrite H; reflexivity
                              | destruct (key_eq_dec k' k); [contradiction|reflexivity] ].
Qed.

Lemma live_upd_same now s k v : live now (upd s k v) k = match v with Some e => if alive now e then Some e else None | None => None end.
Proof. unfold live. rewrite upd_same. reflexivity. Qed.
Lemma live_upd_other now s k v k' : k' <> k -> live now (upd s k v) k' = live now s k'.
Proof. intros H. unfold live. rewrite (upd_other s k v k' H). reflexivity. Qed.

Lemma live_eq_upd now a b k v : live_eq now a b -> live_eq now (upd a k v) (upd b k v).
Proof.
  intros H n k' L. destruct (key_eq_dec k' k) as [->|N].
  - rewrite !live_upd_same. reflexivity.
  - rewrite !live_upd_other by exact N. apply H. exact L.
Qed.

(* removing an entry that is dead in [b] keeps the two sides indistinguishable *)
Lemma live_eq_del_dead now a b k :
  live_eq now a b -> live now b k = None -> live_eq now (upd a k None) b.
Proof.
  intros H D n k' L. destruct (key_eq_dec k' k) as [->|N].
  - rewrite live_upd_same. rewrite (live_none_later now n b k L D). reflexivity.
  - rewrite live_upd_other by exact N. apply H. exact L.
Qed.

(* ---------------- the map statements, abstractly ---------------- *)
Lemma put_same st k e : apply_ops st [MPut k e] k = Some e.
Proof. unfold apply_ops. cbn [fold_left apply_op]. rewrite bytes_eqb_refl. reflexivity. Qed.
Lemma put_other st k e k' : k' <> k -> apply_ops st [MPut k e] k' = st k'.
Proof. intros H. unfold apply_ops. cbn [fold_left apply_op]. apply bytes_eqb_neq in H. rewrite H. reflexivity. Qed.
Lemma del_same st k : apply_ops st [MDel k] k = None.
Proof. unfold apply_ops. cbn [fold_left apply_op]. rewrite bytes_eqb_refl. reflexivity. Qed.
Lemma del_other st k k' : k' <> k -> apply_ops st [MDel k] k' = st k'.
Proof. intros H. unfold apply_ops. cbn [fold_left apply_op]. apply bytes_eqb_neq in H. rewrite H. reflexivity. Qed.

Lemma abs_put st k e k' : abs (apply_ops st [MPut k e]) k' = upd (abs st) k (Some (abs_raw e)) k'.
Proof.
  destruct (key_eq_dec k' k) as [->|N].
  - rewrite upd_same. unfold abs. rewrite put_same. reflexivity.
  - rewrite (upd_other _ _ _ _ N). unfold abs. rewrite (put_other _ _ _ _ N). reflexivity.
Qed.
Lemma abs_del st k k' : abs (apply_ops st [MDel k]) k' = upd (abs st) k None k'.
Proof.
  destruct (key_eq_dec k' k) as [->|N].
  - rewrite upd_same. unfold abs. rewrite del_same. reflexivity.
  - rewrite (upd_other _ _ _ _ N). unfold abs. rewrite (del_other _ _ _ N). reflexivity.
Qed.

(* what the simulation relation says about one lookup *)
Lemma lookup_ref st s now k : now < two32 -> live_eq now (abs st) s ->
  live now s k = match lookup st now k with Some e => Some (abs_raw e) | None => None end.
Proof. intros H R. rewrite <- (R now k (N.le_refl now)). apply live_abs. exact H. Qed.

Lemma classify_success : classify statusSuccess = OOk. Proof. reflexivity. Qed.
Lemma classify_exists : classify statusKeyExists = OExists. Proof. reflexivity. Qed.
Lemma classify_enoent : classify statusKeyEnoent = OMiss. Proof. reflexivity. Qed.
Lemma classify_notstored : classify statusNotStored = OMiss. Proof. reflexivity. Qed.
Lemma outcome_exists : outcome_of (HErr EKeyExists) = OExists. Proof. reflexivity. Qed.
Lemma outcome_notfound : outcome_of (HErr EKeyNotFound) = OMiss. Proof. reflexivity. Qed.

(* a put of corresponding entries on both sides *)
Lemma sim_put now st s k e e' :
  live_eq now (abs st) s -> abs_raw e = e' ->
  live_eq now (abs (apply_ops st [MPut k e])) (upd s k (Some e')).
Proof.
  intros R <-. eapply live_eq_ext; [intros k'; apply abs_put|]. apply live_eq_upd. exact R.
Qed.
(* the code deletes, the reference keeps a dead entry (or has none) *)
Lemma sim_del_dead now st s k :
  live_eq now (abs st) s -> live now s k = None ->
  live_eq now (abs (apply_ops st [MDel k])) s.
Proof.
  intros R D. eapply live_eq_ext; [intros k'; apply abs_del|]. apply live_eq_del_dead; assumption.
Qed.
Lemma sim_del now st s k :
  live_eq now (abs st) s -> live_eq now (abs (apply_ops st [MDel k])) (upd s k None).
Proof.
  intros R. eapply live_eq_ext; [intros k'; apply abs_del|]. apply live_eq_upd. exact R.
Qed.

(* ---------------- get family, per key ---------------- *)
Lemma get1_ref st s now w it : now < two32 -> live_eq now (abs st) s ->
  im_get1 st now w it = ref_get1 s now w it.
Proof.
  intros H R. unfold im_get1, ref_get1, gb_get. rewrite (lookup_ref st s now (gi_key it) H R).
  destruct (lookup st now (gi_key it)) as [e|]; [|reflexivity].
  cbn [abs_raw e_data e_flags e_dl]. rewrite dl_raw_abs. reflexivity.
Qed.
Lemma ref_get1_view s now w it :
  gres_view (ref_get1 s now w it) = view (gb_get s now (gi_key it)).
Proof. unfold ref_get1. destruct (gb_get s now (gi_key it)); reflexivity. Qed.

(* ---------------- one command ---------------- *)
Lemma sim_step st s now q :
  now + ttl_of q < two32 -> live_eq now (abs st) s ->
  live_eq now (abs (fst (inmem_exec st now q))) (fst (gspec_step inmem_norm s now (cmd_of q)))
  /\ snd (inmem_exec st now q) = ref_result s now q
  /\ outcome_of (snd (inmem_exec st now q)) = snd (gspec_step inmem_norm s now (cmd_of q)).
Proof.
  intros Hr R. assert (Hn : now < two32) by lia.
  destruct q as [m k d f ttl | front k d | k | k ttl | items | items | k ttl opq];
    cbn [ttl_of] in Hr; unfold inmem_exec, ref_result; cbn [inmem_step cmd_of gspec_step fst snd].
  - (* Set / Add / Replace *)
    pose proof (lookup_ref st s now k Hn R) as L.
    assert (P : live_eq now (abs (apply_ops st [MPut k (mkRaw (new_exp now ttl) f d)]))
                        (gb_put inmem_norm s now k d f ttl)).
    { unfold gb_put. apply sim_put; [exact R|]. unfold abs_raw. cbn [r_data r_flags r_exp].
      rewrite abs_new_exp by exact Hr. reflexivity. }
    unfold im_store, gb_set. destruct m.
    + cbn [s_ops s_res fst snd]. rewrite classify_success. auto.
    + rewrite L. destruct (lookup st now k) as [e|]; cbn [s_ops s_res fst snd].
      * rewrite classify_exists, outcome_exists. auto.
      * rewrite classify_success. auto.
    + rewrite L. destruct (lookup st now k) as [e|]; cbn [s_ops s_res fst snd].
      * rewrite classify_success. auto.
      * rewrite classify_enoent, outcome_notfound. split; [|auto].
        apply sim_del_dead; [exact R|]. rewrite L. reflexivity.
  - (* Append / Prepend *)
    pose proof (lookup_ref st s now k Hn R) as L.
    unfold im_cat, gb_cat. rewrite L. destruct (lookup st now k) as [e|]; cbn [s_ops s_res fst snd].
    + rewrite classify_success. split; [|auto]. apply sim_put; [exact R|].
      unfold abs_raw. cbn [r_data r_flags r_exp e_data e_flags e_dl]. destruct front; reflexivity.
    + rewrite classify_notstored, outcome_notfound. split; [|auto].
      apply sim_del_dead; [exact R|]. rewrite L. reflexivity.
  - (* Delete *)
    pose proof (lookup_ref st s now k Hn R) as L.
    unfold im_delete, gb_delete. rewrite L. destruct (lookup st now k) as [e|]; cbn [s_ops s_res fst snd].
    + rewrite classify_success. split; [|auto]. apply sim_del. exact R.
    + rewrite classify_enoent, outcome_notfound. split; [|auto].
      apply sim_del_dead; [exact R|]. rewrite L. reflexivity.
  - (* Touch *)
    pose proof (lookup_ref st s now k Hn R) as L.
    unfold im_touch, gb_touch. rewrite L. destruct (lookup st now k) as [e|]; cbn [s_ops s_res fst snd].
    + rewrite classify_success. split; [|auto]. apply sim_put; [exact R|].
      unfold abs_raw. cbn [r_data r_flags r_exp e_data e_flags e_dl].
      rewrite abs_new_exp by exact Hr. reflexivity.
    + rewrite classify_enoent, outcome_notfound. split; [|auto].
      apply sim_del_dead; [exact R|]. rewrite L. reflexivity.
  - (* Get *)
    unfold im_get. cbn [s_ops s_res apply_ops fold_left fst snd outcome_of].
    rewrite (map_ext _ _ (fun it => get1_ref st s now false it Hn R)).
    split; [exact R|]. split; [reflexivity|]. f_equal. rewrite !map_map.
    apply map_ext. intros it. apply ref_get1_view.
  - (* GetE *)
    unfold im_get. cbn [s_ops s_res apply_ops fold_left fst snd outcome_of].
    rewrite (map_ext _ _ (fun it => get1_ref st s now true it Hn R)).
    split; [exact R|]. split; [reflexivity|]. f_equal. rewrite !map_map.
    apply map_ext. intros it. apply ref_get1_view.
  - (* GAT *)
    pose proof (lookup_ref st s now k Hn R) as L.
    unfold im_gat, gb_gat, gb_touch, ref_get1, gb_get. cbn [gi_key gi_opaque gi_quiet].
    rewrite L. destruct (lookup st now k) as [e|]; cbn [s_ops s_res fst snd outcome_of map view].
    + split; [|split; [|reflexivity]].
      * apply sim_put; [exact R|]. unfold abs_raw. cbn [r_data r_flags r_exp e_data e_flags e_dl].
        rewrite abs_new_exp by exact Hr. reflexivity.
      * reflexivity.
    + split; [|split; reflexivity]. apply sim_del_dead; [exact R|]. rewrite L. reflexivity.
Qed.

(* ---------------- histories ---------------- *)
Lemma sim_run : forall h t0 st s,
  hist_ok t0 h -> live_eq t0 (abs st) s ->
  map outcome_of (snd (inmem_run st h)) = snd (gspec_run inmem_norm s (hist_cmds h))
  /\ snd (inmem_run st h) = snd (ref_run s h)
  /\ live_eq (last_now t0 h) (abs (fst (inmem_run st h))) (fst (gspec_run inmem_norm s (hist_cmds h))).
Proof.
  induction h as [|[now q] r IH]; intros t0 st s Hok R.
  - cbn. auto.
  - cbn [hist_ok] in Hok. destruct Hok as (Hle & Hr & Hok).
    pose proof (sim_step st s now q Hr (live_eq_later t0 now _ _ Hle R)) as (R1 & E1 & O1).
    cbn [inmem_run hist_cmds map gspec_run ref_run last_now fst snd].
    destruct (inmem_exec st now q) as [st1 o1].
    destruct (gspec_step inmem_norm s now (cmd_of q)) as [s1 c1].
    cbn [fst snd] in R1, E1, O1.
    specialize (IH now st1 s1 Hok R1). fold (hist_cmds r) in *.
    destruct (inmem_run st1 r) as [st2 os]. destruct (gspec_run inmem_norm s1 (hist_cmds r)) as [s2 cs].
    destruct (ref_run s1 r) as [s2' os']. cbn [fst snd] in *.
    destruct IH as (IH1 & IH2 & IH3). repeat split.
    + cbn [map]. f_equal; assumption.
    + f_equal; assumption.
    + exact IH3.
Qed.

Lemma inmem_refines_spec : forall h,
  hist_ok 0 h ->
  map outcome_of (snd (inmem_run cempty h)) = snd (gspec_run inmem_norm empty_store (hist_cmds h))
  /\ snd (inmem_run cempty h) = snd (ref_run empty_store h)
  /\ live_eq (last_now 0 h) (abs (fst (inmem_run cempty h)))
             (fst (gspec_run inmem_norm empty_store (hist_cmds h))).
Proof.
  intros h Hok. apply sim_run; [exact Hok|]. intros n k _. reflexivity.
Qed.

(* ---------------- the three behaviours the property names ---------------- *)
Lemma inmem_add_existing st now k d f ttl e :
  st k = Some e -> expired now e = false ->
  inmem_step st now (HSet MAdd k d f ttl) = mkStep LWrite [] (HErr EKeyExists)
  /\ inmem_exec st now (HSet MAdd k d f ttl) = (st, HErr EKeyExists).
Proof.
  intros Hk He. unfold inmem_exec. cbn [inmem_step]. unfold im_store, lookup. rewrite Hk, He.
  split; reflexivity.
Qed.

Lemma inmem_delete_missing st now k :
  lookup st now k = None ->
  snd (inmem_exec st now (HDelete k)) = HErr EKeyNotFound.
Proof. intros H. unfold inmem_exec. cbn [inmem_step]. unfold im_delete. rewrite H. reflexivity. Qed.

Lemma inmem_delete_live st now k e :
  lookup st now k = Some e ->
  snd (inmem_exec st now (HDelete k)) = HDone /\ fst (inmem_exec st now (HDelete k)) k = None.
Proof.
  intros H. unfold inmem_exec. cbn [inmem_step]. unfold im_delete. rewrite H.
  cbn [s_ops s_res fst snd]. split; [reflexivity|]. apply del_same.
Qed.

(* an expired entry behaves as an absent one: same result for every command, and the two
   resulting states can never be told apart afterwards *)
Definition cdel (st : cstate) (k : bytes) : cstate := apply_op st (MDel k).

Lemma inmem_expired_absent st now k e q :
  st k = Some e -> expired now e = true -> now + ttl_of q < two32 ->
  snd (inmem_exec st now q) = snd (inmem_exec (cdel st k) now q)
  /\ live_eq now (abs (fst (inmem_exec st now q))) (abs (fst (inmem_exec (cdel st k) now q))).
Proof.
  intros Hk He Hr. assert (Hn : now < two32) by lia.
  assert (R : live_eq now (abs (cdel st k)) (abs st)).
  { eapply live_eq_ext; [intros k'; apply (abs_del st k k')|].
    apply live_eq_del_dead; [apply live_eq_refl|].
    rewrite (live_abs st now k Hn). unfold lookup. rewrite Hk, He. reflexivity. }
  pose proof (sim_step st (abs st) now q Hr (live_eq_refl now _)) as (R1 & E1 & _).
  pose proof (sim_step (cdel st k) (abs st) now q Hr R) as (R2 & E2 & _).
  split; [congruence|]. eapply live_eq_trans; [exact R1|]. apply live_eq_sym. exact R2.
Qed.

(* ---------------- locking discipline ---------------- *)
Lemma inmem_reads_readonly st now items :
  (inmem_step st now (HGet items)).(s_ops) = [] /\ (inmem_step st now (HGet items)).(s_lock) = LRead /\
  (inmem_step st now (HGetE items)).(s_ops) = [] /\ (inmem_step st now (HGetE items)).(s_lock) = LRead /\
  wrote (inmem_step st now (HGet items)) = false /\ wrote (inmem_step st now (HGetE items)) = false /\
  fst (inmem_exec st now (HGet items)) = st /\ fst (inmem_exec st now (HGetE items)) = st.
Proof. repeat split. Qed.

Lemma inmem_writes_locked st now q :
  wrote (inmem_step st now q) = true -> s_lock (inmem_step st now q) = LWrite.
Proof.
  destruct q as [m k d f ttl | front k d | k | k ttl | items | items | k ttl opq]; cbn [inmem_step].
  - unfold im_store. destruct m; [reflexivity| |]; destruct (lookup st now k); reflexivity.
  - unfold im_cat. destruct (lookup st now k); reflexivity.
  - unfold im_delete. destruct (lookup st now k); reflexivity.
  - unfold im_touch. destruct (lookup st now k); reflexivity.
  - discriminate.
  - discriminate.
  - unfold im_gat. destruct (lookup st now k); reflexivity.
Qed.

(* only the get family takes the read lock *)
Lemma inmem_read_lock_only_gets st now q :
  s_lock (inmem_step st now q) = LRead -> exists items, q = HGet items \/ q = HGetE items.
Proof.
  destruct q as [m k d f ttl | front k d | k | k ttl | items | items | k ttl opq]; cbn [inmem_step].
  - unfold im_store. destruct m; [discriminate| |]; destruct (lookup st now k); discriminate.
  - unfold im_cat. destruct (lookup st now k); discriminate.
  - unfold im_delete. destruct (lookup st now k); discriminate.
  - unfold im_touch. destruct (lookup st now k); discriminate.
  - intros _. exists items. auto.
  - intros _. exists items. auto.
  - unfold im_gat. destruct (lookup st now k); discriminate.
Qed.
