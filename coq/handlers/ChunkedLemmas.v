(* ChunkedLemmas.v — pure facts behind C04/C05: decimal rendering is injective, backend keys of
   distinct client keys never collide, the metadata record round-trips, and zero-padded chunks
   reassemble by arrival order. No store / program reasoning here (see ChunkedProofs.v). *)
From Coq Require Import String.
From Rend Require Import base.Bytes gen.Consts_gen spec.MapSpec orca.Types handlers.ChunkFmt handlers.Chunked.
Open Scope N_scope.

(* ---------------- take / drop ---------------- *)
Lemma take_add {A} x y (l : list A) : take (x + y) l = take x l ++ take y (drop x l).
Proof.
  unfold take, drop. replace (N.to_nat (x + y)) with (N.to_nat x + N.to_nat y)%nat by lia.
  generalize (N.to_nat x) as a. generalize (N.to_nat y) as b. intros b a. revert l.
  induction a as [|a IH]; intros l; [reflexivity|].
  destruct l as [|h l]; cbn [Nat.add firstn skipn app].
  - rewrite firstn_nil. reflexivity.
  - rewrite IH. reflexivity.
Qed.
Lemma drop_add {A} x y (l : list A) : drop (x + y) l = drop y (drop x l).
Proof.
  unfold drop. replace (N.to_nat (x + y)) with (N.to_nat x + N.to_nat y)%nat by lia.
  generalize (N.to_nat x) as a. generalize (N.to_nat y) as b. intros b a. revert l.
  induction a as [|a IH]; intros l; [reflexivity|].
  destruct l as [|h l]; cbn [Nat.add skipn].
  - rewrite skipn_nil. reflexivity.
  - apply IH.
Qed.
Lemma take_all {A} n (l : list A) : len l <= n -> take n l = l.
Proof. unfold take, len. intros H. apply firstn_all2. lia. Qed.
Lemma take_app_len {A} n (a b : list A) : len a = n -> take n (a ++ b) = a.
Proof.
  unfold take, len. intros H. replace (N.to_nat n) with (length a + 0)%nat by lia.
  rewrite firstn_app_2. cbn [firstn]. apply app_nil_r.
Qed.
Lemma drop_app_len {A} n (a b : list A) : len a = n -> drop n (a ++ b) = b.
Proof.
  unfold drop, len. intros H. replace (N.to_nat n) with (length a) by lia.
  rewrite skipn_app, skipn_all, Nat.sub_diag. reflexivity.
Qed.
Lemma zeros_0 : zeros 0 = []. Proof. reflexivity. Qed.

(* ---------------- decimal rendering ---------------- *)
Fixpoint p10 (f : nat) : N := match f with O => 1 | S f => 10 * p10 f end.

Lemma dec_fuel_len_ge f n acc : (length acc <= length (dec_fuel f n acc))%nat.
Proof.
  revert n acc; induction f as [|f IH]; intros n acc; cbn [dec_fuel]; [lia|].
  destruct (n <? 10); cbn [length]; [lia|].
  specialize (IH (n / 10) ((48 + n mod 10) :: acc)). cbn [length] in IH. lia.
Qed.

Lemma dec_fuel_len_gt f n acc : (length acc < length (dec_fuel (S f) n acc))%nat.
Proof.
  cbn [dec_fuel]. destruct (n <? 10); cbn [length]; [lia|].
  pose proof (dec_fuel_len_ge f (n / 10) ((48 + n mod 10) :: acc)) as H. cbn [length] in H. lia.
Qed.

Lemma cons_inj {A} (a b : A) l l' : a :: l = b :: l' -> a = b /\ l = l'.
Proof. intros H. inversion H. split; reflexivity. Qed.

Lemma dec_fuel_inj f : forall n m acc acc',
  n < p10 f -> m < p10 f -> length acc = length acc' ->
  dec_fuel f n acc = dec_fuel f m acc' -> n = m /\ acc = acc'.
Proof.
  induction f as [|f IH]; intros n m acc acc' Hn Hm Hl H.
  - cbn [p10] in *. split; [lia|exact H].
  - cbn [p10] in Hn, Hm.
    destruct (N.ltb_spec n 10) as [Hn1|Hn1]; destruct (N.ltb_spec m 10) as [Hm1|Hm1].
    + rewrite !dec_fuel_lt in H by assumption. apply cons_inj in H. destruct H as [H1 H2]. split; [lia|exact H2].
    + rewrite dec_fuel_lt in H by assumption. rewrite dec_fuel_ge in H by assumption.
      destruct f as [|f]; [cbn [p10] in Hm; lia|].
      pose proof (dec_fuel_len_gt f (m / 10) ((48 + m mod 10) :: acc')) as HL.
      rewrite <- H in HL. cbn [length] in HL. lia.
    + rewrite (dec_fuel_lt f m) in H by assumption. rewrite dec_fuel_ge in H by assumption.
      destruct f as [|f]; [cbn [p10] in Hn; lia|].
      pose proof (dec_fuel_len_gt f (n / 10) ((48 + n mod 10) :: acc)) as HL.
      rewrite H in HL. cbn [length] in HL. lia.
    + rewrite !dec_fuel_ge in H by assumption.
      apply IH in H; [|lia|lia|cbn [length]; lia].
      destruct H as [H1 H2]. apply cons_inj in H2. destruct H2 as [H2 H3]. split; [lia|exact H3].
Qed.

Lemma dec_inj i j : i < 18446744073709551616 -> j < 18446744073709551616 -> dec i = dec j -> i = j.
Proof.
  intros Hi Hj H. unfold dec in H.
  assert (E : p10 20 = 100000000000000000000) by (vm_compute; reflexivity).
  apply dec_fuel_inj in H; [tauto| rewrite E; lia | rewrite E; lia | reflexivity].
Qed.

Definition digit (b : N) : Prop := 48 <= b <= 57.

Lemma dec_fuel_digits f : forall n acc, Forall digit acc -> Forall digit (dec_fuel f n acc).
Proof.
  induction f as [|f IH]; intros n acc Ha; cbn [dec_fuel]; [exact Ha|].
  assert (Hd : digit (48 + n mod 10)) by (unfold digit; lia).
  destruct (n <? 10); [constructor; assumption|]. apply IH. constructor; assumption.
Qed.
Lemma dec_digits n : Forall digit (dec n).
Proof. apply dec_fuel_digits. constructor. Qed.

Lemma dec_fuel_snoc f : forall n acc x, dec_fuel f n (acc ++ [x]) = dec_fuel f n acc ++ [x].
Proof.
  induction f as [|f IH]; intros n acc x; cbn [dec_fuel]; [reflexivity|].
  destruct (n <? 10); [reflexivity|]. rewrite app_comm_cons. apply IH.
Qed.
(* the last byte of a decimal rendering is the units digit *)
Lemma dec_fuel_last f n : exists pre, dec_fuel (S f) n [] = pre ++ [48 + n mod 10].
Proof.
  cbn [dec_fuel]. destruct (n <? 10).
  - exists []. reflexivity.
  - exists (dec_fuel f (n / 10) []). change [48 + n mod 10] with ([] ++ [48 + n mod 10]) at 1.
    apply dec_fuel_snoc.
Qed.
Lemma dec_last n : exists pre, dec n = pre ++ [48 + n mod 10].
Proof. apply dec_fuel_last. Qed.

(* ---------------- keys ---------------- *)
(* the last '-' separates the client key from a '-'-free suffix *)
Lemma app_sep_inj (c : N) : forall a b x y : bytes,
  ~ In c x -> ~ In c y -> a ++ [c] ++ x = b ++ [c] ++ y -> a = b /\ x = y.
Proof.
  induction a as [|h a IH]; intros [|h' b] x y Hx Hy H; cbn [app] in H.
  - inversion H. split; reflexivity.
  - inversion H. subst. exfalso. apply Hx. apply in_or_app. right. left. reflexivity.
  - inversion H. subst. exfalso. apply Hy. apply in_or_app. right. left. reflexivity.
  - inversion H. subst. destruct (IH b x y Hx Hy H2) as [-> ->]. split; reflexivity.
Qed.

Lemma dec_no_dash n : ~ In 45 (dec n).
Proof.
  intros H. pose proof (dec_digits n) as Hd. rewrite Forall_forall in Hd.
  specialize (Hd 45 H). unfold digit in Hd. lia.
Qed.

Lemma chunk_key_injective : forall k k' i j,
  i < 18446744073709551616 -> j < 18446744073709551616 ->
  chunk_key k i = chunk_key k' j -> k = k' /\ i = j.
Proof.
  intros k k' i j Hi Hj H. unfold chunk_key in H.
  apply app_sep_inj in H; [|apply dec_no_dash|apply dec_no_dash].
  destruct H as [-> H]. split; [reflexivity|]. apply dec_inj; assumption.
Qed.

Lemma meta_key_injective : forall k k', meta_key k = meta_key k' -> k = k'.
Proof. intros k k' H. unfold meta_key in H. apply app_inv_tail in H. exact H. Qed.

(* holds for every index: a chunk key ends in a digit, a metadata key in 'a' *)
Lemma meta_not_chunk_any k k' j : meta_key k <> chunk_key k' j.
Proof.
  intros H. unfold meta_key, chunk_key in H. destruct (dec_last j) as [pre E]. rewrite E in H.
  change (asc "-meta") with ([45; 109; 101; 116] ++ [97]) in H.
  rewrite !app_assoc in H. apply app_inj_tail in H. destruct H as [_ H].
  pose proof (N.mod_lt j 10 ltac:(lia)). lia.
Qed.
Lemma meta_not_chunk : forall k k' j, j < 18446744073709551616 -> meta_key k <> chunk_key k' j.
Proof. intros k k' j _. apply meta_not_chunk_any. Qed.

(* ---------------- metadata ---------------- *)
Lemma meta_roundtrip : forall m,
  m_length m < 4294967296 -> m_flags m < 4294967296 -> m_nchunks m < 4294967296 -> m_csize m < 4294967296 ->
  m_instime m < 4294967296 -> m_exptime m < 4294967296 -> len (m_token m) = tokenSize ->
  dec_meta (enc_meta m) = m.
Proof.
  intros [a b c d e f tok]. cbn [m_length m_flags m_nchunks m_csize m_instime m_exptime m_token].
  intros Ha Hb Hc Hd He Hf Ht.
  unfold enc_meta, dec_meta. cbn [m_length m_flags m_nchunks m_csize m_instime m_exptime m_token].
  rewrite (rd32_u32be a) by assumption.
  rewrite (drop_app_len 4 (u32be a)) by reflexivity. rewrite (rd32_u32be b) by assumption.
  change 8 with (4 + 4) at 1. rewrite drop_add, (drop_app_len 4 (u32be a)), (drop_app_len 4 (u32be b)) by reflexivity.
  rewrite (rd32_u32be c) by assumption.
  change 12 with (4 + 4 + 4) at 1.
  rewrite !drop_add, (drop_app_len 4 (u32be a)), (drop_app_len 4 (u32be b)), (drop_app_len 4 (u32be c)) by reflexivity.
  rewrite (rd32_u32be d) by assumption.
  change 16 with (4 + 4 + 4 + 4) at 1.
  rewrite !drop_add, (drop_app_len 4 (u32be a)), (drop_app_len 4 (u32be b)), (drop_app_len 4 (u32be c)),
    (drop_app_len 4 (u32be d)) by reflexivity.
  rewrite (rd32_u32be e) by assumption.
  change 20 with (4 + 4 + 4 + 4 + 4) at 1.
  rewrite !drop_add, (drop_app_len 4 (u32be a)), (drop_app_len 4 (u32be b)), (drop_app_len 4 (u32be c)),
    (drop_app_len 4 (u32be d)), (drop_app_len 4 (u32be e)) by reflexivity.
  replace (rd32 (u32be f ++ tok)) with f by (symmetry; apply rd32_u32be; assumption).
  change 24 with (4 + 4 + 4 + 4 + 4 + 4).
  rewrite !drop_add, (drop_app_len 4 (u32be a)), (drop_app_len 4 (u32be b)), (drop_app_len 4 (u32be c)),
    (drop_app_len 4 (u32be d)), (drop_app_len 4 (u32be e)), (drop_app_len 4 (u32be f)) by reflexivity.
  rewrite take_all by lia. reflexivity.
Qed.

(* ---------------- reassembly ---------------- *)
(* piece j cut out of (token ++ zero-padded chunk j) is exactly the data slice j *)
Lemma piece_chunk md ds d tok j :
  len tok = tokenSize -> m_length md = len d -> m_csize md = ds ->
  piece md j (tok ++ chunk_i ds d j) = take ds (drop (j * ds) d).
Proof.
  intros Ht Hl Hc. unfold piece, slice_end, slice_start. rewrite Hl, Hc.
  rewrite drop_app_len by assumption. unfold chunk_i.
  set (c := take ds (drop (j * ds) d)).
  assert (Hc' : len c = N.min ds (len d - j * ds)).
  { unfold c. rewrite take_len, drop_len. reflexivity. }
  replace (N.min (ds * j + ds) (len d) - ds * j) with (len c) by lia.
  apply take_app_len. reflexivity.
Qed.

Lemma assemble_chunks md ds d tok : 
  len tok = tokenSize -> m_length md = len d -> m_csize md = ds ->
  forall m a,
  assemble md (N.of_nat a) (map (fun c => tok ++ c) (map (fun i => chunk_i ds d (N.of_nat i)) (seq a m)))
  = take (N.of_nat m * ds) (drop (N.of_nat a * ds) d).
Proof.
  intros Ht Hl Hc. induction m as [|m IH]; intros a.
  - reflexivity.
  - cbn [seq map assemble]. rewrite piece_chunk by assumption.
    replace (N.of_nat a + 1) with (N.of_nat (S a)) by lia. rewrite IH.
    replace (N.of_nat (S m) * ds) with (ds + N.of_nat m * ds) by lia.
    rewrite take_add. f_equal. f_equal.
    replace (N.of_nat (S a) * ds) with (N.of_nat a * ds + ds) by lia. apply drop_add.
Qed.

Lemma reassemble : forall (ds : N) (d tok : bytes) md,
  0 < ds -> len tok = tokenSize ->
  m_length md = len d -> m_csize md = ds -> m_nchunks md = num_chunks (len d) ds ->
  let vals := map (fun c => tok ++ c) (chunks ds d) in
  assemble md 0 vals ++ zeros (m_length md - len (assemble md 0 vals)) = d.
Proof.
  intros ds d tok md Hds Ht Hl Hc _ vals. unfold vals, chunks.
  pose proof (assemble_chunks md ds d tok Ht Hl Hc (N.to_nat (num_chunks (len d) ds)) 0) as E.
  change (N.of_nat 0) with 0 in E. change (0 * ds) with 0 in E. change (drop 0 d) with d in E.
  rewrite E. rewrite N2Nat.id.
  destruct (num_chunks_ceil (len d) ds Hds) as [H1 _].
  rewrite take_all by lia. rewrite Hl, N.sub_diag. apply app_nil_r.
Qed.
