(* ChunkedProofs.v — proofs for C04 (chunked storage is transparent) and C05 (chunked reads are
   all-or-nothing) about the model in Chunked.v. Pure lemmas live in ChunkedLemmas.v. *)
From Coq Require Import String.
From Rend Require Import base.Bytes gen.Consts_gen spec.MapSpec orca.Types handlers.ChunkFmt
  handlers.ChunkFmtProofs handlers.Chunked handlers.ChunkedSpec.
From Rend Require Export handlers.ChunkedLemmas.
Open Scope N_scope.

(* ---------------- stores ---------------- *)
Lemma upd_same s k v : upd s k v k = v.
Proof. unfold upd. rewrite bytes_eqb_refl. reflexivity. Qed.
Lemma upd_other s k v k' : k' <> k -> upd s k v k' = s k'.
Proof. intros H. unfold upd. apply bytes_eqb_neq in H. rewrite H. reflexivity. Qed.

Lemma live_some now s k e : live now s k = Some e -> s k = Some e /\ alive now e = true.
Proof.
  unfold live. destruct (s k) as [e'|]; [|discriminate].
  destruct (alive now e') eqn:E; [|discriminate]. intros H. inversion H; subst. split; [reflexivity|assumption].
Qed.
Lemma live_none_of_none now s k : s k = None -> live now s k = None.
Proof. unfold live. intros ->. reflexivity. Qed.

Lemma len_map {A B} (f : A -> B) l : len (map f l) = len l.
Proof. unfold len. rewrite map_length. reflexivity. Qed.

(* ---------------- statuses ---------------- *)
Lemma err_success : err_of_status statusSuccess = None. Proof. reflexivity. Qed.
Lemma err_enoent : err_of_status statusKeyEnoent = Some EKeyNotFound. Proof. reflexivity. Qed.

(* ---------------- running programs ---------------- *)
Lemma brun_req {A} q (K : bres -> bprog A) s now :
  brun (BReq q K) s now = brun (K (snd (b_exec s now q))) (fst (b_exec s now q)) now.
Proof. cbn [brun]. destruct (b_exec s now q). reflexivity. Qed.

Lemma b_exec_set s now k f ttl v :
  b_exec s now (QSet MSet k f ttl v) = (upd s k (Some (mkE v f (norm now ttl))), BStatus statusSuccess).
Proof. reflexivity. Qed.
Lemma b_exec_get s now k :
  b_exec s now (QGet k) =
  (s, match live now s k with Some e => BVal (e_flags e) (e_data e) | None => BStatus statusKeyEnoent end).
Proof. reflexivity. Qed.
Lemma b_exec_noop s now : b_exec s now QNoop = (s, BStatus statusSuccess).
Proof. reflexivity. Qed.

Fixpoint bexecs (s : store) (now : N) (qs : list breq) : store * list bres :=
  match qs with
  | [] => (s, [])
  | q :: r => let '(s1, x) := b_exec s now q in
              let '(s2, xs) := bexecs s1 now r in (s2, x :: xs)
  end.

Lemma brun_breqs {A} qs : forall acc (K : list bres -> bprog A) s now,
  brun (breqs qs acc K) s now =
  brun (K (rev acc ++ snd (bexecs s now qs))) (fst (bexecs s now qs)) now.
Proof.
  induction qs as [|q r IH]; intros acc K s now.
  - cbn [breqs bexecs fst snd]. rewrite app_nil_r. reflexivity.
  - cbn [breqs bexecs]. rewrite brun_req. destruct (b_exec s now q) as [s1 x]. cbn [fst snd].
    rewrite IH. destruct (bexecs s1 now r) as [s2 xs]. cbn [fst snd rev].
    rewrite <- app_assoc. reflexivity.
Qed.

(* ---------------- sizes ---------------- *)
Lemma ds_bounds (k : bytes) : 1 <= len k <= 250 -> 847 <= chunk_data (len k) <= 1096.
Proof.
  intros H. unfold chunk_data, chunk_full.
  rewrite chunkMaxSize_val, chunkOverhead_val, tokenSize_val. lia.
Qed.
Lemma nchunks_bound L ds : 847 <= ds -> L < 4294967296 -> num_chunks L ds < 4294967296.
Proof. intros H1 H2. unfold num_chunks. apply N.div_lt_upper_bound; lia. Qed.
Lemma c_exptime_bound cnow ttl :
  ttl < 4294967296 -> cnow + ttl < 4294967296 -> fst (c_exptime cnow ttl) < 4294967296.
Proof.
  intros H1 H2. unfold c_exptime. destruct (ttl =? 0); [cbn [fst]; lia|].
  destruct (realTimeMaxDelta <? ttl); cbn [fst]; lia.
Qed.

(* ---------------- writing the chunks ---------------- *)
Definition cset (k : bytes) (f ttl : N) (val : N -> bytes) (i : nat) : breq :=
  QSet MSet (chunk_key k (N.of_nat i)) f ttl (val (N.of_nat i)).

Lemma write_chunks_run k f ttl val now : forall m a s,
  N.of_nat (a + m) <= 18446744073709551616 ->
  let r := brun (write_chunks (map (cset k f ttl val) (seq a m))) s now in
  snd r = HDone /\
  (forall i, (a <= i < a + m)%nat ->
     fst r (chunk_key k (N.of_nat i)) = Some (mkE (val (N.of_nat i)) f (norm now ttl))) /\
  (forall key, (forall i, (a <= i < a + m)%nat -> key <> chunk_key k (N.of_nat i)) -> fst r key = s key).
Proof.
  induction m as [|m IH]; intros a s Hb.
  - cbn [seq map write_chunks brun fst snd]. split; [reflexivity|split]; [intros; lia|intros; reflexivity].
  - cbn [seq map write_chunks]. rewrite brun_req. unfold cset at 1 2. rewrite b_exec_set. cbn [fst snd].
    rewrite err_success.
    specialize (IH (S a) (upd s (chunk_key k (N.of_nat a)) (Some (mkE (val (N.of_nat a)) f (norm now ttl))))
                   ltac:(lia)).
    cbv zeta in IH. destruct IH as [H1 [H2 H3]]. cbv zeta. split; [|split].
    + exact H1.
    + intros i Hi. destruct (Nat.eq_dec i a) as [->|Hne].
      * rewrite H3.
        -- apply upd_same.
        -- intros j Hj E. apply chunk_key_injective in E; [lia|lia|lia].
      * apply H2. lia.
    + intros key Hkey. rewrite H3.
      * apply upd_other. apply Hkey. lia.
      * intros i Hi. apply Hkey. lia.
Qed.

(* ---------------- reading the chunks back ---------------- *)
Lemma bexecs_getq s now keys :
  bexecs s now (map QGetQ keys) =
  (s, map (fun ck => match live now s ck with Some e => BVal (e_flags e) (e_data e) | None => BNone end) keys).
Proof.
  induction keys as [|ck r IH]; [reflexivity|].
  cbn [map bexecs b_exec]. rewrite IH. reflexivity.
Qed.

Lemma arrived_vals f (vs : list bytes) : arrived (map (fun v => BVal f v) vs) = vs.
Proof. unfold arrived. induction vs as [|v r IH]; [reflexivity|]. cbn [map flat_map app]. rewrite IH. reflexivity. Qed.

Lemma no_bad_token tok (cs : list bytes) :
  len tok = tokenSize ->
  existsb (fun v => negb (bytes_eqb (take tokenSize v) tok)) (map (fun c => tok ++ c) cs) = false.
Proof.
  intros Ht. induction cs as [|c r IH]; [reflexivity|].
  cbn [map existsb]. rewrite IH. rewrite take_app_len by assumption. rewrite bytes_eqb_refl. reflexivity.
Qed.

(* reading announced chunks that all arrive with the announced token gives the data *)
Lemma read_result_full ds d tok md f :
  0 < ds -> len tok = tokenSize -> m_length md = len d -> m_csize md = ds ->
  m_nchunks md = num_chunks (len d) ds -> m_token md = tok ->
  read_result md (map (fun v => BVal f v) (map (fun c => tok ++ c) (chunks ds d))) = (d, false).
Proof.
  intros Hds Ht Hl Hc Hn Htok. unfold read_result. rewrite arrived_vals.
  rewrite (reassemble ds d tok md Hds Ht Hl Hc Hn). rewrite Htok, no_bad_token by assumption.
  rewrite Hn, len_map, chunks_length.
  rewrite N.eqb_refl. reflexivity.
Qed.

Lemma alive_dl now d f dl : alive now (mkE d f dl) = alive now (mkE [] 0 dl).
Proof. reflexivity. Qed.

Lemma set_get_roundtrip : forall s now tok cnow k d f ttl opq q,
  1 <= len k <= 250 -> len tok = tokenSize -> len d < 4294967296 -> f < 4294967296 ->
  cnow < 4294967296 -> ttl < 4294967296 -> cnow + ttl < 4294967296 ->
  snd (c_exptime cnow ttl) = false ->
  alive now (mkE [] 0 (norm now ttl)) = true ->
  let '(s1, r1) := brun (chunked_set tok cnow MSet k d f ttl) s now in
  r1 = HDone /\
  brun (chunked_get [mkGI k opq q] []) s1 now = (s1, HVals [mkGR k d f 0 opq q false] None).
Proof.
  intros s now tok cnow k d f ttl opq q Hk Ht Hd Hf Hcn Httl Hsum Hexp Halive.
  pose proof (ds_bounds k Hk) as Hds. set (ds := chunk_data (len k)) in *.
  pose proof (nchunks_bound (len d) ds ltac:(lia) Hd) as Hn.
  pose proof (c_exptime_bound cnow ttl Httl Hsum) as Hexpb.
  unfold chunked_set. destruct (c_exptime cnow ttl) as [exp expired]. cbn [fst snd] in Hexp, Hexpb. subst expired.
  fold ds. set (md := mkMeta (len d) f (num_chunks (len d) ds) ds cnow exp tok).
  rewrite brun_req, b_exec_set. cbn [fst snd]. rewrite err_success.
  set (s0 := upd s (meta_key k) (Some (mkE (enc_meta md) f (norm now ttl)))).
  unfold chunk_sets. fold ds.
  change (map _ (seq 0 (N.to_nat (num_chunks (len d) ds))))
    with (map (cset k f ttl (fun i => tok ++ chunk_i ds d i)) (seq 0 (N.to_nat (num_chunks (len d) ds)))).
  pose proof (write_chunks_run k f ttl (fun i => tok ++ chunk_i ds d i) now
                (N.to_nat (num_chunks (len d) ds)) 0%nat s0 ltac:(lia)) as Hw.
  cbv zeta in Hw. destruct (brun _ s0 now) as [s1 r1]. cbn [fst snd] in Hw. destruct Hw as [Hr [Hch Hoth]].
  split; [exact Hr|].
  assert (Hmeta : live now s1 (meta_key k) = Some (mkE (enc_meta md) f (norm now ttl))).
  { unfold live. rewrite Hoth; [|intros i _; apply meta_not_chunk_any]. unfold s0. rewrite upd_same.
    rewrite alive_dl, Halive. reflexivity. }
  cbn [chunked_get gi_key gi_opaque gi_quiet]. unfold with_meta. rewrite brun_req, b_exec_get, Hmeta. cbn [fst snd e_data e_flags].
  rewrite meta_roundtrip; [|cbn [m_length m_flags m_nchunks m_csize m_instime m_exptime m_token md]; unfold md; cbn [m_length m_flags m_nchunks m_csize m_instime m_exptime m_token]; lia..].
  unfold read_chunks. rewrite brun_breqs.
  change (map _ (chunk_keys k (m_nchunks md))) with (map QGetQ (chunk_keys k (num_chunks (len d) ds))).
  rewrite bexecs_getq. cbn [fst snd rev app]. rewrite brun_req, b_exec_noop. cbn [fst snd].
  unfold chunk_keys. rewrite map_map.
  rewrite (map_ext_in _ (fun i => BVal f (tok ++ chunk_i ds d (N.of_nat i)))).
  2:{ intros i Hi. apply in_seq in Hi. unfold live. rewrite Hch by lia. rewrite alive_dl, Halive. reflexivity. }
  replace (map (fun i => BVal f (tok ++ chunk_i ds d (N.of_nat i))) (seq 0 (N.to_nat (num_chunks (len d) ds))))
    with (map (fun v => BVal f v) (map (fun c => tok ++ c) (chunks ds d)))
    by (unfold chunks; rewrite !map_map; reflexivity).
  rewrite (read_result_full ds d tok md f) by (try reflexivity; try assumption; lia).
  cbn [chunked_get brun rev app m_flags md]. reflexivity.
Qed.

(* ================= C05: all-or-nothing reads ================= *)
Lemma bexecs_cons s now q r :
  bexecs s now (q :: r) =
  (fst (bexecs (fst (b_exec s now q)) now r),
   snd (b_exec s now q) :: snd (bexecs (fst (b_exec s now q)) now r)).
Proof.
  cbn [bexecs]. destruct (b_exec s now q) as [s1 x]. cbn [fst snd].
  destruct (bexecs s1 now r) as [s2 xs]. reflexivity.
Qed.

Lemma b_exec_gat s now k ttl :
  b_exec s now (QGat k ttl) =
  (fst (b_touch s now k ttl),
   match live now s k with Some e => BVal (e_flags e) (e_data e) | None => BStatus statusKeyEnoent end).
Proof. reflexivity. Qed.
Lemma b_exec_gatq s now k ttl :
  b_exec s now (QGatQ k ttl) =
  (fst (b_touch s now k ttl),
   match live now s k with Some e => BVal (e_flags e) (e_data e) | None => BNone end).
Proof. reflexivity. Qed.
Lemma b_exec_getq s now k :
  b_exec s now (QGetQ k) =
  (s, match live now s k with Some e => BVal (e_flags e) (e_data e) | None => BNone end).
Proof. reflexivity. Qed.

Lemma arrived_cons_none rs : arrived (BNone :: rs) = arrived rs.
Proof. reflexivity. Qed.
Lemma arrived_cons_val f v rs : arrived (BVal f v :: rs) = v :: arrived rs.
Proof. reflexivity. Qed.
Lemma arrived_len_le rs : (length (arrived rs) <= length rs)%nat.
Proof.
  induction rs as [|r rs IH]; [cbn; lia|].
  destruct r; [rewrite arrived_cons_none | change (arrived (BStatus st :: rs)) with (arrived rs)
               | rewrite arrived_cons_val]; cbn [length]; lia.
Qed.

Lemma Forall2_len {A B} (R : A -> B -> Prop) l l' : Forall2 R l l' -> length l = length l'.
Proof. induction 1; cbn [length]; congruence. Qed.

Lemma tok_inj (W : list cwrite) : NoDup (map w_tok W) ->
  forall w w', In w W -> In w' W -> w_tok w = w_tok w' -> w = w'.
Proof.
  induction W as [|a W IH]; intros Hnd w w' Hw Hw' E; [destruct Hw|].
  cbn [map] in Hnd. apply NoDup_cons_iff in Hnd. destruct Hnd as [Hnin Hnd].
  destruct Hw as [<-|Hw]; destruct Hw' as [<-|Hw'].
  - reflexivity.
  - exfalso. apply Hnin. rewrite E. apply in_map. assumption.
  - exfalso. apply Hnin. rewrite <- E. apply in_map. assumption.
  - apply IH; assumption.
Qed.

Section AllOrNothing.
Variables (k : bytes) (now : N) (W : list cwrite).
Hypothesis Hk : 1 <= len k <= 250.
Hypothesis Hok : Forall (write_ok k) W.
Hypothesis Hnd : NoDup (map w_tok W).

Local Notation ds := (chunk_data (len k)).
Local Notation B := 18446744073709551616.

Definition md_of (w : cwrite) : meta :=
  mkMeta (len (w_data w)) (w_flags w) (num_chunks (len (w_data w)) ds) ds (w_cnow w)
         (fst (c_exptime (w_cnow w) (w_ttl w))) (w_tok w).
Definition cval (w : cwrite) (i : N) : bytes := w_tok w ++ chunk_i ds (w_data w) i.

(* provenance: every metadata / chunk entry of k was written by one of the writes *)
Definition prov (s : store) : Prop :=
  (forall e, s (meta_key k) = Some e ->
     exists w, In w W /\ e_data e = enc_meta (md_of w) /\ e_flags e = w_flags w) /\
  (forall i e, i < B -> s (chunk_key k i) = Some e -> exists w, In w W /\ e_data e = cval w i).

Lemma prov_upd s bk v : prov s ->
  (forall e, v = Some e -> bk = meta_key k ->
     exists w, In w W /\ e_data e = enc_meta (md_of w) /\ e_flags e = w_flags w) ->
  (forall e i, v = Some e -> i < B -> bk = chunk_key k i -> exists w, In w W /\ e_data e = cval w i) ->
  prov (upd s bk v).
Proof.
  intros [P1 P2] H1 H2. split.
  - intros e. unfold upd. destruct (bytes_eqb (meta_key k) bk) eqn:E.
    + apply bytes_eqb_eq in E. intros Hv. apply H1; [assumption|congruence].
    + apply P1.
  - intros i e Hi. unfold upd. destruct (bytes_eqb (chunk_key k i) bk) eqn:E.
    + apply bytes_eqb_eq in E. intros Hv. apply (H2 e i); [assumption|assumption|congruence].
    + apply P2. assumption.
Qed.

Lemma prov_lose s bk : prov s -> prov (upd s bk None).
Proof. intros P. apply prov_upd; [assumption| |]; intros; discriminate. Qed.

Lemma prov_touch s ck e dl : prov s -> s ck = Some e ->
  prov (upd s ck (Some (mkE (e_data e) (e_flags e) dl))).
Proof.
  intros P Hs. pose proof P as [P1 P2]. apply prov_upd; [assumption| |].
  - intros e' Hv ->. inversion Hv; subst. cbn [e_data e_flags]. apply P1. assumption.
  - intros e' i Hv Hi ->. inversion Hv; subst. cbn [e_data]. apply (P2 i); assumption.
Qed.

Lemma prov_put_meta s w dl : prov s -> In w W ->
  prov (upd s (meta_key k) (Some (mkE (enc_meta (md_of w)) (w_flags w) dl))).
Proof.
  intros P Hw. apply prov_upd; [assumption| |].
  - intros e Hv _. inversion Hv; subst. exists w. cbn [e_data e_flags]. repeat split; assumption.
  - intros e i _ _ E. exfalso. exact (meta_not_chunk_any _ _ _ E).
Qed.

Lemma prov_put_chunk s w i f dl : prov s -> In w W -> i < B ->
  prov (upd s (chunk_key k i) (Some (mkE (cval w i) f dl))).
Proof.
  intros P Hw Hi. apply prov_upd; [assumption| |].
  - intros e _ E. exfalso. symmetry in E. exact (meta_not_chunk_any _ _ _ E).
  - intros e j Hv Hj E. apply chunk_key_injective in E; [|assumption|assumption].
    destruct E as [_ <-]. inversion Hv; subst. exists w. cbn [e_data]. split; [assumption|reflexivity].
Qed.

Lemma wok w : In w W -> write_ok k w.
Proof. intros Hw. rewrite Forall_forall in Hok. apply Hok. assumption. Qed.

Lemma ds_ok : 847 <= ds <= 1096.
Proof. apply ds_bounds. exact Hk. Qed.

Lemma nw_bound w : In w W -> num_chunks (len (w_data w)) ds < 4294967296.
Proof.
  intros Hw. destruct (wok w Hw) as [_ [Hd _]]. pose proof ds_ok. apply nchunks_bound; [lia|assumption].
Qed.

Lemma reach_prov s : reach k now W s -> prov s.
Proof.
  induction 1 as [|s w q Hr IH Hw Hq|s bk Hr IH].
  - split; intros; discriminate.
  - unfold write_reqs in Hq. cbv zeta in Hq. destruct Hq as [<-|Hq].
    + rewrite b_exec_set. cbn [fst]. apply (prov_put_meta s w _ IH Hw).
    + unfold chunk_sets in Hq. apply in_map_iff in Hq. destruct Hq as [i [<- Hi]].
      rewrite b_exec_set. cbn [fst]. apply in_seq in Hi.
      pose proof (nw_bound w Hw).
      apply (prov_put_chunk s w (N.of_nat i) _ _ IH Hw). lia.
  - apply prov_lose. assumption.
Qed.

Lemma md_of_ok w : In w W -> dec_meta (enc_meta (md_of w)) = md_of w.
Proof.
  intros Hw. pose proof (nw_bound w Hw). pose proof ds_ok.
  destruct (wok w Hw) as [Ht [Hd [Hf [Hc [Httl Hsum]]]]].
  pose proof (c_exptime_bound _ _ Httl Hsum).
  apply meta_roundtrip; unfold md_of; cbn [m_length m_flags m_nchunks m_csize m_instime m_exptime m_token];
    first [assumption | lia].
Qed.

(* one chunk read (plain or get-and-touch) *)
Definition rq (touch : option N) (ck : bytes) : breq :=
  match touch with Some ttl => QGatQ ck ttl | None => QGetQ ck end.
Definition Rr (i : N) (r : bres) : Prop :=
  r = BNone \/ exists w f, In w W /\ r = BVal f (cval w i).

Lemma read_step touch s i : prov s -> i < B ->
  prov (fst (b_exec s now (rq touch (chunk_key k i)))) /\
  Rr i (snd (b_exec s now (rq touch (chunk_key k i)))).
Proof.
  intros P Hi. pose proof P as [_ P2].
  assert (HR : Rr i (match live now s (chunk_key k i) with
                     | Some e => BVal (e_flags e) (e_data e) | None => BNone end)).
  { destruct (live now s (chunk_key k i)) as [e|] eqn:E; [|left; reflexivity].
    apply live_some in E. destruct E as [E _]. destruct (P2 i e Hi E) as [w [Hw Hd]].
    right. exists w, (e_flags e). rewrite Hd. split; [assumption|reflexivity]. }
  destruct touch as [ttl|]; unfold rq.
  - rewrite b_exec_gatq. cbn [fst snd]. split; [|exact HR].
    unfold gb_touch. destruct (live now s (chunk_key k i)) as [e|] eqn:E; cbn [fst]; [|assumption].
    apply live_some in E. destruct E as [E _]. apply prov_touch; assumption.
  - rewrite b_exec_getq. cbn [fst snd]. split; assumption.
Qed.

Lemma read_steps touch : forall idxs s, prov s -> Forall (fun i => i < B) idxs ->
  prov (fst (bexecs s now (map (fun i => rq touch (chunk_key k i)) idxs))) /\
  Forall2 Rr idxs (snd (bexecs s now (map (fun i => rq touch (chunk_key k i)) idxs))).
Proof.
  induction idxs as [|i r IH]; intros s P Hall.
  - cbn [map bexecs fst snd]. split; [assumption|constructor].
  - cbn [map]. rewrite bexecs_cons. cbn [fst snd]. inversion Hall; subst.
    destruct (read_step touch s i P) as [P1 R1]; [assumption|].
    destruct (IH _ P1) as [P2 R2]; [assumption|].
    split; [assumption|constructor; assumption].
Qed.

(* if as many chunks arrive as were asked for and all carry w's token, they are w's chunks *)
Lemma full_arrival w : In w W -> forall idxs rs, Forall2 Rr idxs rs ->
  length (arrived rs) = length rs ->
  existsb (fun v => negb (bytes_eqb (take tokenSize v) (w_tok w))) (arrived rs) = false ->
  arrived rs = map (cval w) idxs.
Proof.
  intros Hw. induction 1 as [|i r idxs rs HR HF IH]; intros Hlen Hex; [reflexivity|].
  destruct HR as [->|[w' [f [Hw' ->]]]].
  - rewrite arrived_cons_none in Hlen. pose proof (arrived_len_le rs). cbn [length] in Hlen. lia.
  - rewrite arrived_cons_val in *. cbn [length] in Hlen. cbn [existsb] in Hex.
    apply orb_false_iff in Hex. destruct Hex as [Hx Hex].
    unfold cval in Hx at 1. destruct (wok w' Hw') as [Ht _].
    rewrite take_app_len in Hx by assumption.
    apply negb_false_iff, bytes_eqb_eq in Hx.
    assert (w' = w) as -> by (apply (tok_inj W Hnd); assumption).
    cbn [map]. f_equal. apply IH; [lia|assumption].
Qed.

Lemma read_chunks_run {A} w touch (cont : bytes * bool -> bprog A) s :
  prov s -> In w W ->
  exists s' dm, brun (read_chunks k (md_of w) touch cont) s now = brun (cont dm) s' now /\
                (snd dm = true \/ fst dm = w_data w).
Proof.
  intros P Hw. unfold read_chunks. rewrite brun_breqs. cbn [rev app].
  rewrite brun_req, b_exec_noop. cbn [fst snd].
  set (n := num_chunks (len (w_data w)) ds).
  assert (E : map (fun ck => match touch with Some ttl => QGatQ ck ttl | None => QGetQ ck end)
                  (chunk_keys k (m_nchunks (md_of w)))
              = map (fun i => rq touch (chunk_key k i)) (map N.of_nat (seq 0 (N.to_nat n)))).
  { unfold chunk_keys. rewrite !map_map. reflexivity. }
  rewrite E. clear E.
  set (idxs := map N.of_nat (seq 0 (N.to_nat n))).
  assert (Hall : Forall (fun i => i < B) idxs).
  { apply Forall_forall. intros i Hi. unfold idxs in Hi. apply in_map_iff in Hi.
    destruct Hi as [j [<- Hj]]. apply in_seq in Hj. pose proof (nw_bound w Hw). fold n in H. lia. }
  destruct (read_steps touch idxs s P Hall) as [_ HF].
  set (rs := snd (bexecs s now (map (fun i => rq touch (chunk_key k i)) idxs))) in *.
  eexists. exists (read_result (md_of w) rs). split; [reflexivity|].
  destruct (snd (read_result (md_of w) rs)) eqn:Hs; [left; reflexivity|right].
  unfold read_result in *. cbn [fst snd] in *. apply orb_false_iff in Hs. destruct Hs as [Hbad Hshort].
  apply negb_false_iff, N.eqb_eq in Hshort.
  change (m_nchunks (md_of w)) with n in Hshort. change (m_token (md_of w)) with (w_tok w) in Hbad.
  pose proof (Forall2_len _ _ _ HF) as HL.
  assert (HLi : length idxs = N.to_nat n) by (unfold idxs; rewrite map_length, seq_length; reflexivity).
  assert (Hlen : length (arrived rs) = length rs) by (unfold len in Hshort; lia).
  rewrite (full_arrival w Hw idxs rs HF Hlen Hbad).
  replace (map (cval w) idxs) with (map (fun c => w_tok w ++ c) (chunks ds (w_data w)))
    by (unfold idxs, chunks, cval; rewrite !map_map; reflexivity).
  destruct (wok w Hw) as [Ht _]. pose proof ds_ok.
  apply (reassemble ds (w_data w) (w_tok w) (md_of w)); try reflexivity; try assumption; lia.
Qed.

Lemma get_aon s opq q : reach k now W s ->
  exists g, snd (brun (chunked_get [mkGI k opq q] []) s now) = HVals [g] None /\
            (g_miss g = true \/ exists w, In w W /\ g_data g = w_data w /\ g_flags g = w_flags w).
Proof.
  intros Hr. apply reach_prov in Hr. pose proof Hr as [P1 _].
  cbn [chunked_get gi_key gi_opaque gi_quiet]. unfold with_meta. rewrite brun_req, b_exec_get. cbn [fst snd].
  destruct (live now s (meta_key k)) as [e|] eqn:E.
  - apply live_some in E. destruct E as [E _]. destruct (P1 e E) as [w [Hw [Hd Hf]]].
    rewrite Hd, md_of_ok by assumption.
    match goal with |- context [brun (read_chunks k (md_of w) None ?c) s now] =>
      destruct (read_chunks_run w None c s Hr Hw) as [s' [[d miss] [Hrun Hdm]]] end.
    rewrite Hrun. cbn [fst snd] in Hdm. destruct miss; cbn [chunked_get brun rev app snd].
    + eexists. split; [reflexivity|]. left. reflexivity.
    + eexists. split; [reflexivity|]. right. exists w. cbn [g_data g_flags m_flags md_of].
      destruct Hdm as [Hdm|Hdm]; [discriminate|]. repeat split; assumption.
  - rewrite err_enoent, N.eqb_refl. cbn [chunked_get brun rev app snd].
    eexists. split; [reflexivity|]. left. reflexivity.
Qed.

Lemma gat_aon s ttl opq : reach k now W s ->
  exists g, snd (brun (chunked_gat k ttl opq) s now) = HVals [g] None /\
            (g_miss g = true \/ exists w, In w W /\ g_data g = w_data w /\ g_flags g = w_flags w).
Proof.
  intros Hr. apply reach_prov in Hr. pose proof Hr as [P1 _].
  unfold chunked_gat, with_meta. rewrite brun_req, b_exec_gat. cbn [fst snd]. unfold gb_touch.
  destruct (live now s (meta_key k)) as [e|] eqn:E.
  - apply live_some in E. destruct E as [E _]. destruct (P1 e E) as [w [Hw [Hd Hf]]].
    cbn [fst]. rewrite Hd, md_of_ok by assumption.
    pose proof (prov_touch s (meta_key k) e (norm now ttl) Hr E) as Hr'. rewrite Hd in Hr'.
    match goal with |- context [brun (read_chunks k (md_of w) (Some ttl) ?c) ?s0 now] =>
      destruct (read_chunks_run w (Some ttl) c s0 Hr' Hw) as [s' [[d miss] [Hrun Hdm]]] end.
    rewrite Hrun. cbn [fst snd] in Hdm. destruct miss; cbn [brun snd].
    + eexists. split; [reflexivity|]. left. reflexivity.
    + eexists. split; [reflexivity|]. right. exists w. cbn [g_data g_flags m_flags md_of].
      destruct Hdm as [Hdm|Hdm]; [discriminate|]. repeat split; assumption.
  - rewrite err_enoent, N.eqb_refl. cbn [fst brun snd].
    eexists. split; [reflexivity|]. left. reflexivity.
Qed.
End AllOrNothing.

Lemma get_all_or_nothing : forall k now W s opq q,
  1 <= len k <= 250 -> Forall (write_ok k) W -> NoDup (map w_tok W) ->
  reach k now W s ->
  exists g, snd (brun (chunked_get [mkGI k opq q] []) s now) = HVals [g] None /\
            (g_miss g = true \/ exists w, In w W /\ g_data g = w_data w /\ g_flags g = w_flags w).
Proof. intros. apply get_aon; assumption. Qed.

Lemma gat_all_or_nothing : forall k now W s ttl opq,
  1 <= len k <= 250 -> Forall (write_ok k) W -> NoDup (map w_tok W) ->
  reach k now W s ->
  exists g, snd (brun (chunked_gat k ttl opq) s now) = HVals [g] None /\
            (g_miss g = true \/ exists w, In w W /\ g_data g = w_data w /\ g_flags g = w_flags w).
Proof. intros. apply gat_aon; assumption. Qed.

(* ================= C04: delete ================= *)
Lemma b_exec_delete s now k :
  b_exec s now (QDelete k) = (fst (b_delete s now k), BStatus (snd (b_delete s now k))).
Proof. cbn [b_exec]. destruct (b_delete s now k). reflexivity. Qed.

Lemma delete_keeps_none s now ck mk : s mk = None -> fst (b_delete s now ck) mk = None.
Proof.
  intros H. unfold gb_delete. destruct (live now s ck); cbn [fst]; [|assumption].
  unfold upd. destruct (bytes_eqb mk ck); [reflexivity|assumption].
Qed.

Lemma bexecs_delete_none now mk : forall keys s,
  s mk = None -> fst (bexecs s now (map QDelete keys)) mk = None.
Proof.
  induction keys as [|ck r IH]; intros s H; [exact H|].
  cbn [map]. rewrite bexecs_cons. cbn [fst]. apply IH. rewrite b_exec_delete. cbn [fst].
  apply delete_keeps_none. assumption.
Qed.

Lemma delete_unreadable : forall s now k s' opq q,
  brun (chunked_delete k) s now = (s', HDone) ->
  brun (chunked_get [mkGI k opq q] []) s' now = (s', HVals [mkGR k [] 0 0 opq q true] None).
Proof.
  intros s now k s' opq q H.
  assert (Hnone : s' (meta_key k) = None).
  { unfold chunked_delete, with_meta in H. rewrite brun_req, b_exec_get in H. cbn [fst snd] in H.
    destruct (live now s (meta_key k)) as [e|] eqn:E.
    - rewrite brun_req, b_exec_delete in H. unfold gb_delete in H. rewrite E in H. cbn [fst snd] in H.
      rewrite err_success in H. rewrite brun_breqs in H. cbn [brun] in H.
      injection H as H _. rewrite <- H. apply bexecs_delete_none. apply upd_same.
    - rewrite err_enoent, N.eqb_refl in H. cbn [brun] in H. discriminate. }
  cbn [chunked_get gi_key gi_opaque gi_quiet]. unfold with_meta. rewrite brun_req, b_exec_get. cbn [fst snd].
  rewrite (live_none_of_none now s' _ Hnone). rewrite err_enoent, N.eqb_refl.
  cbn [chunked_get brun rev app]. reflexivity.
Qed.

(* ================= C04: confinement ================= *)
Inductive allreq {A} (P : breq -> Prop) : bprog A -> Prop :=
| ar_ret a : allreq P (BRet a)
| ar_req q K : P q -> (forall r, allreq P (K r)) -> allreq P (BReq q K).

Lemma allreq_btrace {A} (P : breq -> Prop) (p : bprog A) : allreq P p -> forall s now q, In q (btrace p s now) -> P q.
Proof.
  induction 1 as [a|q0 K Hq HK IH]; intros s now q Hin.
  - destruct Hin.
  - cbn [btrace] in Hin. destruct (b_exec s now q0) as [s1 r]. destruct Hin as [<-|Hin]; [assumption|].
    apply (IH r s1 now q Hin).
Qed.

Lemma allreq_mono {A} (P Q : breq -> Prop) (p : bprog A) :
  (forall q, P q -> Q q) -> allreq P p -> allreq Q p.
Proof. intros HPQ. induction 1; constructor; auto. Qed.

Lemma allreq_breqs {A} (P : breq -> Prop) qs : forall acc (K : list bres -> bprog A),
  Forall P qs -> (forall rs, allreq P (K rs)) -> allreq P (breqs qs acc K).
Proof.
  induction qs as [|q r IH]; intros acc K HF HK; cbn [breqs]; [apply HK|].
  inversion HF; subst. constructor; [assumption|]. intros x. apply IH; assumption.
Qed.

Lemma allreq_write_chunks (P : breq -> Prop) qs : Forall P qs -> allreq P (write_chunks qs).
Proof.
  induction 1 as [|q r Hq HF IH]; cbn [write_chunks]; [constructor|].
  constructor; [assumption|]. intros [|st|f v]; try constructor.
  destruct (err_of_status st); [constructor|assumption].
Qed.

Lemma allreq_with_meta {A} (P : breq -> Prop) q (miss : bprog A) (fail : N -> bprog A) (K : meta -> bprog A) :
  P q -> allreq P miss -> (forall e, allreq P (fail e)) -> (forall md, allreq P (K md)) ->
  allreq P (with_meta q miss fail K).
Proof.
  intros Hq Hm Hf HK. unfold with_meta. constructor; [assumption|].
  intros [|st|f v]; [apply Hf| |apply HK].
  destruct (err_of_status st) as [e|]; [|apply HK]. destruct (e =? EKeyNotFound); [assumption|apply Hf].
Qed.

(* requests confined to the backend keys derived from the client keys ks *)
Definition okq (ks : list bytes) (q : breq) : Prop :=
  forall bk, key_of q = Some bk -> exists k, In k ks /\ derived k bk.

Lemma okq_mono ks ks' q : incl ks ks' -> okq ks q -> okq ks' q.
Proof. intros Hi H bk Hb. destruct (H bk Hb) as [k [Hk Hd]]. exists k. split; [apply Hi|]; assumption. Qed.

Lemma okq_meta ks k q : In k ks -> key_of q = Some (meta_key k) -> okq ks q.
Proof. intros Hk Hq bk Hb. rewrite Hq in Hb. inversion Hb; subst. exists k. split; [assumption|left; reflexivity]. Qed.
Lemma okq_chunk ks k i q : In k ks -> key_of q = Some (chunk_key k i) -> okq ks q.
Proof.
  intros Hk Hq bk Hb. rewrite Hq in Hb. inversion Hb; subst. exists k.
  split; [assumption|right; exists i; reflexivity].
Qed.
Lemma okq_noop ks : okq ks QNoop.
Proof. intros bk Hb. discriminate. Qed.

Lemma okq_chunk_keys ks k (mk : bytes -> breq) n :
  In k ks -> (forall ck, key_of (mk ck) = Some ck) -> Forall (okq ks) (map mk (chunk_keys k n)).
Proof.
  intros Hk Hmk. apply Forall_forall. intros q Hq. apply in_map_iff in Hq. destruct Hq as [ck [<- Hck]].
  unfold chunk_keys in Hck. apply in_map_iff in Hck. destruct Hck as [i [<- _]].
  apply (okq_chunk ks k (N.of_nat i)); [assumption|apply Hmk].
Qed.

Lemma allreq_read_chunks {A} ks k md touch (cont : bytes * bool -> bprog A) :
  In k ks -> (forall dm, allreq (okq ks) (cont dm)) -> allreq (okq ks) (read_chunks k md touch cont).
Proof.
  intros Hk Hc. unfold read_chunks. apply allreq_breqs.
  - apply okq_chunk_keys; [assumption|]. intros ck. destruct touch; reflexivity.
  - intros rs. constructor; [apply okq_noop|]. intros _. apply Hc.
Qed.

Lemma allreq_set ks tok cnow m k d f ttl :
  In k ks -> allreq (okq ks) (chunked_set tok cnow m k d f ttl).
Proof.
  intros Hk. unfold chunked_set. destruct (c_exptime cnow ttl) as [exp expired].
  destruct expired; [constructor|]. constructor; [apply (okq_meta ks k); [assumption|reflexivity]|].
  intros [|st|f' v]; try constructor. destruct (err_of_status st); [constructor|].
  apply allreq_write_chunks. unfold chunk_sets. apply Forall_forall. intros q Hq.
  apply in_map_iff in Hq. destruct Hq as [i [<- _]].
  apply (okq_chunk ks k (N.of_nat i)); [assumption|reflexivity].
Qed.

Lemma allreq_get : forall items acc, allreq (okq (map gi_key items)) (chunked_get items acc).
Proof.
  induction items as [|it r IH]; intros acc; cbn [chunked_get]; [constructor|].
  assert (Hin : In (gi_key it) (map gi_key (it :: r))) by (left; reflexivity).
  assert (Hmono : forall acc', allreq (okq (map gi_key (it :: r))) (chunked_get r acc')).
  { intros acc'. eapply allreq_mono; [|apply IH]. intros q. apply okq_mono.
    intros x Hx. right. assumption. }
  apply allreq_with_meta.
  - apply (okq_meta _ (gi_key it)); [assumption|reflexivity].
  - apply Hmono.
  - intros e. constructor.
  - intros md. apply allreq_read_chunks; [assumption|]. intros [d miss]. apply Hmono.
Qed.

Lemma allreq_prog tok cnow q : allreq (okq (hreq_keys q)) (chunked_prog tok cnow q).
Proof.
  destruct q as [m k d f ttl|front k d|k|k ttl|items|items|k ttl opq]; cbn [chunked_prog hreq_keys].
  - apply allreq_set. left. reflexivity.
  - unfold chunked_cat. apply allreq_with_meta.
    + apply (okq_meta _ k); [left; reflexivity|reflexivity].
    + constructor.
    + intros e. constructor.
    + intros md. apply allreq_read_chunks; [left; reflexivity|]. intros [old miss].
      destruct miss; [constructor|]. apply allreq_set. left. reflexivity.
  - unfold chunked_delete. apply allreq_with_meta.
    + apply (okq_meta _ k); [left; reflexivity|reflexivity].
    + constructor.
    + intros e. constructor.
    + intros md. constructor; [apply (okq_meta _ k); [left; reflexivity|reflexivity]|].
      intros [|st|f v]; try constructor. destruct (err_of_status st); [constructor|].
      apply allreq_breqs; [|intros; constructor].
      apply okq_chunk_keys; [left; reflexivity|reflexivity].
  - unfold chunked_touch. apply allreq_with_meta.
    + apply (okq_meta _ k); [left; reflexivity|reflexivity].
    + constructor.
    + intros e. constructor.
    + intros md. apply allreq_breqs.
      * apply okq_chunk_keys; [left; reflexivity|reflexivity].
      * intros rs. destruct (any_notfound rs); [constructor|].
        constructor; [apply (okq_meta _ k); [left; reflexivity|reflexivity]|].
        intros [|st|f v]; try constructor. destruct (err_of_status st); constructor.
  - apply allreq_get.
  - constructor.
  - unfold chunked_gat. apply allreq_with_meta.
    + apply (okq_meta _ k); [left; reflexivity|reflexivity].
    + constructor.
    + intros e. constructor.
    + intros md. apply allreq_read_chunks; [left; reflexivity|]. intros [d miss]. constructor.
Qed.

Lemma confinement : forall tok cnow q s now bq bk,
  In bq (btrace (chunked_prog tok cnow q) s now) -> key_of bq = Some bk ->
  exists k, In k (hreq_keys q) /\ derived k bk.
Proof.
  intros tok cnow q s now bq bk Hin Hk.
  exact (allreq_btrace _ _ (allreq_prog tok cnow q) s now bq Hin bk Hk).
Qed.

(* ================= C05: concrete witnesses ================= *)
Definition apply_reqs (now : N) (s : store) (qs : list breq) : store :=
  fold_left (fun s q => fst (b_exec s now q)) qs s.

Lemma reach_apply k now W w : In w W -> forall qs s,
  incl qs (write_reqs k w) -> reach k now W s -> reach k now W (apply_reqs now s qs).
Proof.
  intros Hw. induction qs as [|q r IH]; intros s Hi Hr; [exact Hr|].
  cbn [apply_reqs fold_left]. apply IH.
  - intros x Hx. apply Hi. right. assumption.
  - apply (reach_req k now W s w q Hr Hw). apply Hi. left. reflexivity.
Qed.

Definition torn_k : bytes := [107].
Definition torn_w : cwrite :=
  mkW (repeat 1 16) 1000 (repeat 1 1096 ++ repeat 2 1096 ++ repeat 3 800) 7 0.
Definition torn_s : store :=
  upd (apply_reqs 1000 empty_store (write_reqs torn_k torn_w)) (chunk_key torn_k 1) None.

Lemma without_count_check_refuted : exists k now W s,
  reach k now W s /\
  let md := dec_meta (match s (meta_key k) with Some e => e_data e | None => [] end) in
  let vals := arrived (map (fun ck => snd (b_exec s now (QGetQ ck))) (chunk_keys k (m_nchunks md))) in
  existsb (fun v => negb (bytes_eqb (take tokenSize v) (m_token md))) vals = false /\
  forall w, In w W -> assemble md 0 vals ++ zeros (m_length md - len (assemble md 0 vals)) <> w_data w.
Proof.
  exists torn_k, 1000, [torn_w], torn_s. split.
  - unfold torn_s. apply reach_lose. apply (reach_apply torn_k 1000 [torn_w] torn_w).
    + left. reflexivity.
    + apply incl_refl.
    + apply reach_empty.
  - cbv zeta. split.
    + vm_compute. reflexivity.
    + intros w [<-|[]]. apply bytes_eqb_neq. vm_compute. reflexivity.
Qed.

Lemma c05_example :
  let k := [107] in
  let w1 := mkW (repeat 1 16) 1000 (repeat 5 3000) 1 0 in
  let w2 := mkW (repeat 2 16) 1000 (repeat 6 1500) 2 0 in
  Forall (write_ok k) [w1; w2] /\ NoDup (map w_tok [w1; w2]) /\
  exists s, reach k 1000 [w1; w2] s /\ s (chunk_key k 1) <> None /\ s (chunk_key k 2) = None.
Proof.
  intros k w1 w2. split; [|split].
  - repeat constructor; vm_compute; reflexivity.
  - cbn [map]. constructor.
    + intros [H|[]]. vm_compute in H. discriminate H.
    + constructor; [intros []|constructor].
  - set (q := QSet MSet (chunk_key k 1) (w_flags w1) (w_ttl w1)
                   (w_tok w1 ++ chunk_i (chunk_data (len k)) (w_data w1) 1)).
    exists (fst (b_exec empty_store 1000 q)). split; [|split].
    + apply (reach_req k 1000 [w1; w2] empty_store w1 q).
      * apply reach_empty.
      * left. reflexivity.
      * unfold write_reqs. cbv zeta. right. unfold chunk_sets. apply in_map_iff.
        exists 1%nat. split; [reflexivity|]. apply in_seq. vm_compute. lia.
    + vm_compute. discriminate.
    + vm_compute. reflexivity.
Qed.
